#!/bin/sh
# Offline setup: verify the interpreter and the repository import, create scratch dirs,
# run a short determinism smoke test.  Nothing is downloaded or built.
set -e
cd "$(dirname "$0")"
PY="${VERIF_PYTHON:-/venv/bin/python}"
"$PY" -c 'import PIL, requests, urwid, typing_extensions; print("deps ok")'
"$PY" -c 'import sys; sys.path.insert(0, "/repo/src"); import warnings; warnings.simplefilter("ignore"); import term_image; print("term_image", term_image.__version__, term_image.__file__)'
mkdir -p evidence replays
./check selftest-determinism --runs 24
