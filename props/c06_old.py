"""C06, old (image) API half: BaseImage.draw() for Block / Kitty / ITerm2 images."""
from __future__ import annotations

import io
import os

from simkit import drawworld as dw
from simkit import images
from simkit.core import Violation, check
from simkit.vterm import VTerm, marker
from simkit.world import World


class OldApiScenario:
    def __init__(self, ch, ctx, w, small=False):
        self.w = w
        vt = w.vt
        self.cols, self.rows = cols, rows = vt.cols, vt.rows
        pname = vt.profile.name.lower()
        styles = ["block"]
        if pname in ("kitty", "konsole"):
            styles += ["kitty", "kitty"]
        if pname in ("wezterm", "iterm2", "konsole"):
            styles += ["iterm2", "iterm2"]
        self.style = ch.pick("style", styles)
        self.animated_src = ch.bool("animated_src", 0.6)
        self.n = ch.int("nframes", 2, 3 if small else 4) if self.animated_src else 1
        self.src_w = ch.skewed("sw", 1, 24 if small else 48)
        self.src_h = ch.skewed("sh", 1, 24 if small else 48)
        self.mode = ch.pick("mode", ("RGB", "RGBA", "L", "P", "noise", "noise")) \
            if not self.animated_src else "P"
        self.source_kind = ch.pick("srckind", ("pil", "file"))
        big_payload = self.style in ("kitty", "iterm2") and ch.bool("bigpayload", 0.4)
        if big_payload and not self.animated_src:
            self.mode = "noise"
        # image size in cells
        self.sizing = ch.weighted("sizing", [(5, "fixed"), (2, "dynamic"), (1, "fixed_big")])
        maxw = min(cols, 10 if small else 30)
        maxh = min(rows, 5 if small else 12)
        if self.sizing == "fixed":
            self.size = (ch.skewed("iw", 1, maxw), ch.skewed("ih", 1, maxh))
        elif self.sizing == "fixed_big":
            self.size = (ch.int("iw", 1, cols + 2), ch.int("ih", 1, rows + 3))
        else:
            self.size = ch.pick("dynsize", ("FIT", "AUTO", "ORIGINAL", "FIT_TO_WIDTH"))
            if self.size == "FIT_TO_WIDTH":
                # a thin, tall source stretched to the terminal's width is thousands of lines
                # high (hundreds of megabytes of graphics payload): keep the aspect sane
                self.src_h = min(self.src_h, 2 * self.src_w + 2)
        self.h_align = ch.pick("h_align", (None, "<", "|", ">", "left", "center", "right"))
        self.v_align = ch.pick("v_align", (None, "^", "-", "_", "top", "middle", "bottom"))
        self.pad_width = ch.weighted("pwk", [(3, 0), (2, "abs"), (1, "rel"), (1, "big")])
        if self.pad_width == "abs":
            self.pad_width = ch.int("pw", 1, cols)
        elif self.pad_width == "rel":
            self.pad_width = -ch.int("pwr", 0, cols)
        elif self.pad_width == "big":
            self.pad_width = cols + ch.int("pwb", 1, 3)
        self.pad_height = ch.weighted("phk", [(3, -2), (2, "abs"), (2, 1), (1, "rel"), (1, "big")])
        if self.pad_height == "abs":
            self.pad_height = ch.int("ph", 1, rows)
        elif self.pad_height == "rel":
            self.pad_height = -ch.int("phr", 0, rows)
        elif self.pad_height == "big":
            self.pad_height = rows + ch.int("phb", 1, 3)
        self.alpha = ch.pick("alpha", ("default", None, 0.5, "#", "#ffffff"))
        self.animate = ch.bool("animate", 0.85)
        self.repeat = ch.int("repeat", 1, 2)
        self.cached = ch.pick("cached", (False, True, 1, 100))
        self.scroll = ch.bool("scroll", 0.3)
        self.check_size = ch.bool("check_size", 0.8)
        self.style_args = {}
        if self.style == "kitty":
            if ch.bool("kmethod", 0.6):
                self.style_args["method"] = ch.pick("km", ("lines", "whole"))
            if ch.bool("kz", 0.3):
                self.style_args["z_index"] = ch.pick("kzv", (-1, 1, 5, -(2 ** 31) + 1, 2 ** 31 - 1))
            if ch.bool("kmix", 0.3):
                self.style_args["mix"] = True
            if ch.bool("kc", 0.3) or big_payload:
                self.style_args["compress"] = ch.pick("kcv", (0, 9)) if not big_payload else 0
        elif self.style == "iterm2":
            if ch.bool("imethod", 0.6):
                self.style_args["method"] = ch.pick("im", ("lines", "whole", "anim"))
            if ch.bool("imix", 0.3):
                self.style_args["mix"] = True
            if ch.bool("ic", 0.3):
                self.style_args["compress"] = ch.pick("icv", (0, 9))
        self.seek_to = ch.int("seek", 0, self.n - 1) if self.animated_src and ch.bool("sk", 0.3) else 0
        self.forced = ch.bool("forced_support", 0.2)
        self.tmp_path = None

    # -- construction --------------------------------------------------------------

    def build(self):
        from term_image import image as ti_image
        cls = {"block": ti_image.BlockImage, "kitty": ti_image.KittyImage,
               "iterm2": ti_image.ITerm2Image}[self.style]
        if self.animated_src:
            data = images.anim_bytes(self.n, self.src_w, self.src_h)
            suffix = ".gif"
        else:
            if self.mode == "noise":
                data = images.noisy_still_bytes(self.src_w * 3, self.src_h * 3,
                                                seed=self.src_w * 64 + self.src_h)
            else:
                data = images.still_bytes(self.src_w, self.src_h, self.mode)
            suffix = ".png"
        kw = {}
        if self.forced and self.style != "block":
            # support forced by the application before the first instance exists: the class
            # still has to find out what terminal it is on (frame clearing, cursor handling)
            cls.forced_support = True
        if self.sizing != "dynamic":
            kw = {"width": self.size[0], "height": self.size[1]}
        if self.source_kind == "file":
            self.tmp_path = images.write_tmp(data, suffix)
            img = cls.from_file(self.tmp_path, **kw)
        else:
            from PIL import Image
            self.pil = Image.open(io.BytesIO(data))
            img = cls(self.pil, **kw)
        if self.sizing == "dynamic":
            img.size = getattr(ti_image.Size, self.size)
        if self.seek_to:
            img.seek(self.seek_to)
        self.image = img
        self.cls = cls
        return img

    def cleanup(self):
        try:
            self.image.close()
        except Exception:
            pass
        if self.tmp_path:
            try:
                os.remove(self.tmp_path)
            except OSError:
                pass

    def describe(self):
        return ("%sImage(%s %dx%d px%s, frames=%d, size=%s).draw(h_align=%r, pad_width=%r, "
                "v_align=%r, pad_height=%r, alpha=%r, animate=%s, repeat=%d, cached=%r, scroll=%s, "
                "check_size=%s, %s) tell=%d"
                % (self.style, self.source_kind, self.src_w, self.src_h,
                   "" if self.animated_src else " " + self.mode, self.n, self.size,
                   self.h_align, self.pad_width, self.v_align, self.pad_height, self.alpha,
                   self.animate, self.repeat, self.cached, self.scroll, self.check_size,
                   self.style_args, self.seek_to))

    def call(self):
        kw = dict(self.style_args)
        if self.alpha != "default":
            kw["alpha"] = self.alpha
        self.image.draw(self.h_align, self.pad_width, self.v_align, self.pad_height,
                        animate=self.animate, repeat=self.repeat, cached=self.cached,
                        scroll=self.scroll, check_size=self.check_size, **kw)

    # -- documented expectations ---------------------------------------------------

    def resolve(self):
        """Geometry per the draw() docstring, from the terminal size at the call."""
        cols, rows = self.cols, self.rows
        self.animation = self.animated_src and self.animate
        pw = self.pad_width if self.pad_width > 0 else max(cols + self.pad_width, 1)
        ph = self.pad_height if self.pad_height > 0 else max(rows + self.pad_height, 1)
        self.expect_error = None
        if self.pad_width > cols:
            self.expect_error = "ValueError"
        elif self.animation and self.pad_height > rows:
            self.expect_error = "ValueError"
        rs = tuple(self.image.rendered_size)
        self.rsize = rs
        if self.expect_error is None and self.sizing != "dynamic" \
                and (self.check_size or self.animation):
            if rs[0] > cols or ((not self.scroll or self.animation) and rs[1] > rows):
                self.expect_error = "InvalidSizeError"
        self.W, self.H = max(pw, rs[0]), max(ph, rs[1])
        ha = {None: 1, "<": 0, "|": 1, ">": 2, "left": 0, "center": 1, "right": 2}[self.h_align]
        va = {None: 1, "^": 0, "-": 1, "_": 2, "top": 0, "middle": 1, "bottom": 2}[self.v_align]
        self.l, self.r = dw.align_offsets(self.W - rs[0], ha)
        self.t, self.b = dw.align_offsets(self.H - rs[1], va)
        # dynamic sizes are documented as not validated ("validated, if set"): when
        # ORIGINAL / FIT_TO_WIDTH exceed the terminal nothing is promised about placement
        self.too_wide = self.W > cols or (self.animation and self.H > rows)
        # documented: the iterm2 WHOLE method "doesn't work well on iTerm2 and WezTerm when
        # the image height is greater than the terminal height"
        if self.style == "iterm2" and rs[1] > rows and \
                self.w.vt.profile.iterm2_images == "cells" and \
                self.style_args.get("method") in ("whole", "anim"):
            self.too_wide = True

    def frame_sequence(self):
        if not self.animation:
            return [self.seek_to if self.animated_src else 0]
        return list(range(self.n)) * self.repeat

    def spec(self):
        a = self.alpha
        s = "1.1" + {"default": "", None: "#", "#": "##"}.get(a, None if not isinstance(a, str)
                                                            else a) \
            if not isinstance(a, float) else "1.1#" + ("%s" % a).lstrip("0")
        sa = self.style_args
        st = ""
        if "method" in sa:
            # documented: in an animation the ANIM method falls back to WHOLE frames
            st += sa["method"][0].upper()
        if "z_index" in sa:
            st += "z%d" % sa["z_index"]
        if "mix" in sa:
            st += "m%d" % sa["mix"]
        if "compress" in sa:
            st += "c%d" % sa["compress"]
        return s + ("+" + st if st else "")

    def reference(self, frame, scroll, top):
        """The same frame drawn alone at the region's place on a scratch terminal whose
        cells start as the pre-call screen shifted by ``scroll``."""
        img = self.image
        pos = img.tell()
        if self.animation and self.style_args.get("method") == "anim":
            # documented: in an animation the ANIM method falls back to WHOLE frames - at the
            # image's full resolution, so the payload differs from a '+W' render; the frame as
            # the image iterator renders it is the reference (content is not C06's business)
            from term_image.image import ImageIterator
            it = ImageIterator(img, 1, self.spec(), False)
            try:
                for _ in range(frame + 1):
                    render = next(it)
            finally:
                it.close()
                img.seek(pos)
        else:
            if self.animated_src:
                img.seek(frame)
            try:
                render = format(img, self.spec())
            finally:
                if self.animated_src:
                    img.seek(pos)
        vt = self.w.vt
        sv = VTerm(vt.rows, vt.cols, vt.profile, vt.cell_px, prefill=False)
        for r in range(vt.rows):
            src = r + scroll
            if src < vt.rows:
                sv.grid[r] = [marker(src, c) for c in range(vt.cols)]
        sv.r, sv.c = top + self.t, self.l
        data = render.replace("\n", "\n\x1b[%dC" % self.l if self.l else "\n")
        sv.feed(data.encode().replace(b"\n", b"\r\n"))
        return sv


def compare_inner(vt, sv, sc, top, info, site, inv):
    rw, rh = sc.rsize
    for y in range(rh):
        r = top + sc.t + y
        if not 0 <= r < vt.rows:
            continue
        for x in range(rw):
            c = sc.l + x
            if c >= vt.cols:
                continue
            if vt.grid[r][c] != sv.grid[r][c]:
                raise Violation(inv, dict(info, row=r, col=c, got=repr(vt.grid[r][c]),
                                          expected=repr(sv.grid[r][c])), site)
    region = (top, 0, top + sc.H, sc.W)
    got = sorted((p.kind, p.row, p.col, p.rows, p.cols, p.digest)
                 for p in vt.placements if p.intersects(*region))
    exp = sorted((p.kind, p.row, p.col, p.rows, p.cols, p.digest) for p in sv.placements)
    if got != exp:
        raise Violation("graphics_placements_in_region_differ_from_frame",
                        dict(info, got=got[:6], expected=exp[:6]), site)


def padding_cells(sc):
    rows = []
    blank = (" ", None, None, None)
    for y in range(sc.H):
        if y < sc.t or y >= sc.t + sc.rsize[1]:
            rows.append([blank] * sc.W)
        else:
            rows.append([blank] * sc.l + [False] * sc.rsize[0] + [blank] * sc.r)
    return rows


def check_padding(vt, sc, top, info, site):
    for dy, row in enumerate(padding_cells(sc)):
        r = top + dy
        if not 0 <= r < vt.rows:
            continue
        for c, exp in enumerate(row):
            if exp is False or c >= vt.cols:
                continue
            if vt.grid[r][c] != exp:
                raise Violation("padding_cell_not_blank",
                                dict(info, row=r, col=c, got=repr(vt.grid[r][c])), site)


def run(ch, ctx, fault=None):
    ctx.probe("old_api")
    profile = dw.gen_draw_profile(ch)
    rows = ch.skewed("rows", 3, 30)
    cols = ch.skewed("cols", 4, 80)
    isatty = ch.bool("isatty", 0.85)
    buffered = ch.bool("buffered", 0.5)
    w = World(ctx, ch, fault, rows=rows, cols=cols, profile=profile,
              cell_px=(ch.int("cw", 2, 10), ch.int("chh", 4, 20)), stdout_tty=isatty,
              buffered=buffered)
    k, tty, vt, out = w.k, w.tty, w.vt, w.out
    sc = OldApiScenario(ch, ctx, w)
    r0 = ch.skewed("r0", 0, rows - 1)
    entry = tty.mark_entry()
    info = {"scenario": sc.describe(), "terminal": (cols, rows), "r0": r0, "isatty": isatty,
            "buffered": buffered, "profile": "%s %s" % (profile.name, profile.version),
            "rows0": rows}
    ctx.op("terminal %dx%d cell=%s cursor_row=%d isatty=%s buffered=%s profile=%s %s"
           % (cols, rows, vt.cell_px, r0, isatty, buffered, profile.name, profile.version))
    ctx.op(sc.describe())
    ctx.key(info)
    shown = []
    with w:
        try:
            sc.build()
        except Exception as e:
            raise Violation("image_construction_failed", dict(info, exc=repr(e)), "old_api.build")
        try:
            sc.resolve()
            seq = sc.frame_sequence()
            H, W = sc.H, sc.W
            info.update(rendered_size=sc.rsize, padded=(W, H), animation=sc.animation)
            s_anim = max(0, r0 + H - rows)
            s_final = max(0, r0 + H - (rows - 1))
            fits_screen = not sc.too_wide and sc.expect_error is None
            # an animation that repeats forever (the default) returns only because of Ctrl-C
            # during one of its inter-frame waits: the frame on display stays, cursor below it
            ctrl_c_at = None
            ctrl_c_how = ["sleep"]
            if sc.animation and fits_screen and ch.bool("ctrl_c", 0.25):
                if ch.bool("forever", 0.5):
                    sc.repeat = -1
                    seq = seq * 4
                    ctx.probe("infinite_animation_ended_by_ctrl_c")
                if len(seq) >= 2:
                    ctrl_c_at = ch.int("ctrl_c_at", 0, min(len(seq) - 2, 9))
                    if ch.bool("at_write_start", 0.35):
                        # ... or just as the output of the next frame begins, before a byte
                        # of it went out: the screen is in the very same state
                        ctrl_c_how[0] = "write_start"
                        info["ctrl_c"] = "as the write of the next frame begins"
                        ctx.probe("ctrl_c_as_next_frame_write_begins")
                    seq = seq[:ctrl_c_at + 1]
                    ctx.op("Ctrl-C during the wait after frame #%d (repeat=%d)"
                           % (ctrl_c_at, sc.repeat))
                    ctx.key("ctrl_c", ctrl_c_at, sc.repeat)
            refs = {}
            if fits_screen and sc.animation and r0 - s_anim + sc.t >= 0:
                for f in set(seq):
                    refs[f] = sc.reference(f, s_anim, r0 - s_anim)
            # start from a pristine screen: detection queries above wrote nothing visible,
            # but put the markers back anyway and place the cursor
            vt.grid = [[marker(r, c) for c in range(cols)] for r in range(rows)]
            vt.placements = []
            vt.scroll_count = 0
            vt.errors = []
            vt.hide_show = 0
            vt.r, vt.c = r0, 0
            # the last frame of an earlier animation is still on the screen, on a line above
            # this draw's region: it is "a cell outside the padded region" like any other
            # (Kitty <= 0.25.0 excepted, where wiping earlier frames is the documented
            # work-around)
            earlier_digest = None
            if sc.style == "kitty" and sc.animation and fits_screen and s_final == 0 \
                    and r0 >= 1 and ch.bool("earlier_animation_frame_on_screen", 0.5):
                from PIL import Image as _Image
                from term_image.image import KittyImage as _Kitty
                # (that z-index is reserved for animation frames: not to be had through a
                # format specifier)
                prev = format(_Kitty(_Image.new("RGB", (2, 2), (9, 90, 190)), width=1, height=1),
                              "1.1+W").replace(",z=0,", ",z=-2147483648,")
                vt.r, vt.c = 0, cols - 1
                vt.feed(prev.encode())
                vt.grid[0][cols - 1] = marker(0, cols - 1)
                vt.r, vt.c = r0, 0
                vt.errors = []
                if vt.placements:
                    earlier_digest = vt.placements[-1].digest
                    ctx.probe("frame_of_an_earlier_animation_on_screen")

            def on_sleep(secs):
                j = len(shown)
                check(j < 500, "animation_did_not_end", dict(info, sleeps=j),
                      "old_api.animate")
                f = seq[j] if j < len(seq) else None
                shown.append(f)
                inf = dict(info, frame_index=j, expected_frame=f, scroll=s_anim)
                check(j < len(seq) - (ctrl_c_at is None), "more_frames_shown_than_documented",
                      inf, "old_api.animate")
                check(vt.scroll_count == s_anim, "gratuitous_scroll_during_animation",
                      lambda: dict(inf, scrolled=vt.scroll_count), "old_api.animate")
                top = r0 - s_anim
                if f in refs:
                    compare_inner(vt, refs[f], sc, top, inf, "old_api.animate",
                                  "frame_not_drawn_over_same_cells")
                    check_padding(vt, sc, top, inf, "old_api.animate")
                    dw.check_outside(vt, rows, s_anim, (top, 0, top + H, W), inf,
                                     "old_api.animate")
                if j == ctrl_c_at:
                    if ctrl_c_how[0] == "write_start":
                        k.fault = {"kind": "out.write", "k": k.counts.get("out.write", 0) + 1,
                                   "when": "before", "exc": "KeyboardInterrupt"}
                        k.fault_done = False
                        return
                    ctx.probe("ctrl_c_during_inter_frame_wait")
                    raise KeyboardInterrupt

            if sc.animation and fits_screen:
                k.on_sleep = on_sleep
                ctx.probe("old_api_animation")
            exc = None
            bytes0 = len(out.sink) + len(out.buf)
            tc0 = k.counts.get("tty.tcsetattr", 0) + k.counts.get("tty.tcsetattr.restore", 0)
            try:
                sc.call()
            except Violation:
                raise
            except Exception as e:
                exc = e
            k.on_sleep = None
            ctx.op("-> %s; %d sleeps, scrolled %d, cursor (%d,%d)"
                   % ("raised %r" % (exc,) if exc else "returned", len(shown), vt.scroll_count,
                      vt.r, vt.c))
            ctx.log("result", type(exc).__name__ if exc else None, len(shown), vt.scroll_count,
                    vt.r, vt.c)
            written = len(out.sink) + len(out.buf) - bytes0
            if sc.expect_error:
                ctx.probe("size_rejected")
                check(exc is not None and type(exc).__name__ == sc.expect_error,
                      "size_validation_accepted_a_size_that_does_not_fit",
                      dict(info, got=repr(exc), expected=sc.expect_error), "old_api.validate")
                check(written == 0, "bytes_written_before_size_rejection",
                      dict(info, written=written), "old_api.validate")
                dw.terminal_restored(vt, tty, entry, True, info, "old_api.validate")
                return
            check(exc is None, "draw_raised_for_a_size_that_fits",
                  dict(info, exc=repr(exc)), "old_api.validate")
            out.drain()
            dw.terminal_restored(vt, tty, entry, True, info, "old_api.return")
            if ctrl_c_at is None:       # (the interrupt handlers may write a spare terminator)
                check(not vt.errors, "malformed_control_sequence_written",
                      lambda: dict(info, errors=vt.errors[:3]), "old_api.return")
            if not isatty:
                ctx.probe("not_a_tty")
                check(vt.hide_show == 0, "cursor_visibility_sequence_written_to_non_tty",
                      dict(info, n=vt.hide_show), "old_api.return")
            if sc.too_wide:
                return
            if sc.animation:
                check(len(shown) == len(seq) - (ctrl_c_at is None),
                      "fewer_frames_shown_than_documented",
                      dict(info, sleeps=len(shown), frames=len(seq)), "old_api.animate")
            last = seq[-1]
            top = r0 - s_final
            inf = dict(info, scroll=s_final, frame=last)
            if s_final:
                ctx.probe("forced_scroll")
            if r0 + H >= rows:
                ctx.probe("region_ends_on_bottom_row")
            if W == cols:
                ctx.probe("padded_width_equals_terminal_width")
            if H > rows:
                ctx.probe("tall_still_scrolls")
            check(vt.scroll_count == s_final, "scrolled_more_or_less_than_the_region_required",
                  lambda: dict(inf, scrolled=vt.scroll_count), "old_api.return")
            if top + sc.t >= 0 and top + H <= rows:
                sv = sc.reference(last, s_final, top)
                compare_inner(vt, sv, sc, top, inf, "old_api.return", "last_frame_not_in_place")
                check_padding(vt, sc, top, inf, "old_api.return")
            dw.check_outside(vt, rows, s_final, (top, 0, top + H, W), inf, "old_api.return")
            if earlier_digest is not None:
                old_kitty = profile.name.lower() == "kitty" and tuple(
                    int(x) for x in profile.version.split(".")[:3]) <= (0, 25, 0)
                if not old_kitty:
                    check(any(p.digest == earlier_digest and p.row == 0 for p in vt.placements),
                          "picture_left_by_an_earlier_animation_was_deleted",
                          lambda: dict(inf, placements=[(p.row, p.col) for p in vt.placements]),
                          "old_api.return")
            check((vt.r, vt.c) == (min(rows - 1, top + H), 0),
                  "cursor_not_at_start_of_line_below",
                  lambda: dict(inf, cursor=(vt.r, vt.c), expected=(top + H, 0),
                               delta_rows=vt.r - (top + H)), "old_api.return")
            if len(seq) >= 2 or ((sc.l or sc.r) and (sc.t or sc.b)) or s_final:
                ctx.nontrivial = True
        finally:
            sc.cleanup()
