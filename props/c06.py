"""C06 - draw() leaves the picture in place and the cursor on the line below it."""
from __future__ import annotations

from simkit import drawworld as dw
from simkit import simrenderable
from simkit.core import Violation, check
from simkit.kernel import NS
from simkit.world import World

ID = "C06"
LEVEL = "exploration"
TECHNIQUE = ("deterministic simulation: whole draw() executed against a virtual clock, a "
             "simulated stdout/tty and a terminal emulator model; screen/cursor oracle at every "
             "inter-frame sleep and at return")
LEVEL_TEXT = ("Seeded exploration of draw worlds (terminal size, initial cursor row incl. rows "
              "that force scrolling, tty or not, stream buffering, terminal identity, render "
              "size, every padding kind, frame/loop counts, render cost vs frame duration on the "
              "virtual clock, both APIs). The bytes are interpreted by the terminal model and "
              "the resulting screen is compared cell by cell with what the documentation "
              "promises, at every frame boundary and at return. A quarter of the animations "
              "(half of those looping forever) are ended by Ctrl-C during the wait after a seeded "
              "frame - the only way an infinite animation returns - and are held to the same "
              "end state with that frame as the last one. Sampling, not proof.")
LEVEL_NOTE = ("Trusted: VTerm's cursor/scroll/SGR/graphics semantics (DESIGN.md 2.4, 8), the "
              "padding and frame-sequence models in simkit/drawworld.py. SimRenderable is "
              "harness code written against the documented extension API.")
TIERS = {
    "quick": {"runs": 9000},
    "thorough": {"runs": 400000, "wall_cap": 1500},
}
RULE = ("world = terminal (rows 3-40 x cols 4-100, unique marker in every cell, cursor at column "
        "0 of a seeded row) x subject (new API: SimRenderable still / animated / INDEFINITE with "
        "every padding kind; old API: Block/Kitty/ITerm2 images over generated still and "
        "animated sources) x draw arguments x stream discipline x per-frame render cost x "
        "optional Ctrl-C during the k-th inter-frame wait (finite or infinite loop count); "
        "non-trivial = >= 2 frames drawn, or padding on both axes, or a forced scroll; "
        "distinct = hash of the scenario description")
PROBES = ["render_slower_than_frame_duration", "region_ends_on_bottom_row",
          "padded_width_equals_terminal_width", "relative_padding_resolved", "forced_scroll",
          "size_rejected", "not_a_tty", "empty_fill", "zero_frame_indefinite",
          "old_api", "old_api_animation", "tall_still_scrolls",
          "ctrl_c_during_inter_frame_wait", "infinite_animation_ended_by_ctrl_c",
          "ctrl_c_as_next_frame_write_begins", "ctrl_c_as_first_cursor_return_begins",
          "frame_of_an_earlier_animation_on_screen"]
COMPONENTS = {
    "real": ["Renderable.draw/_animate_/_init_render_", "RenderIterator", "padding.*",
             "BaseImage.draw/_display_animated/_renderer/_format_render", "ImageIterator",
             "BlockImage/KittyImage/ITerm2Image._render_image", "PIL"],
    "stub": ["stdout (SimStdout)", "tty + termios", "clocks/sleep (virtual)",
             "terminal emulator (VTerm)"],
}
ASSUMPTIONS = [
    "terminal model semantics as listed in DESIGN.md 2.4 (xterm-style cursor/scroll, kitty and "
    "iterm2 graphics as their protocol documents and the library's own comments describe)",
    "no terminal resize during the call (the property does not cover it)",
]


def run(ch, ctx, fault=None):
    api = ch.weighted("api", [(6, "new"), (4, "old")])
    if api == "old":
        from props import c06_old
        return c06_old.run(ch, ctx, fault)
    profile = dw.gen_draw_profile(ch)
    rows = ch.skewed("rows", 3, 40)
    cols = ch.skewed("cols", 4, 100)
    isatty = ch.bool("isatty", 0.85)
    buffered = ch.bool("buffered", 0.5)
    w = World(ctx, ch, fault, rows=rows, cols=cols, profile=profile,
              cell_px=(ch.int("cw", 2, 12), ch.int("chh", 4, 24)), stdout_tty=isatty,
              buffered=buffered, reuse=True)
    k, tty, vt, out = w.k, w.tty, w.vt, w.out
    hooks = simrenderable.Hooks(k)
    sc = dw.NewApiScenario(ch, ctx, w, hooks)
    r0 = ch.skewed("r0", 0, rows - 1)
    vt.r, vt.c = r0, 0
    cost_mode = ch.pick("costmode", ("zero", "small", "large"))
    if cost_mode != "zero":
        hi = sc.duration * 1_000_000 * (3 if cost_mode == "large" else 1) // 2

        def cost(frame):
            c = ch.int("rcost", 0, hi)
            if c > sc.frame_duration(frame) * 1_000_000:
                ctx.probe("render_slower_than_frame_duration")
            return c
        hooks.render_cost_ns = cost
    entry = tty.mark_entry()
    info = {"scenario": sc.describe(), "terminal": (cols, rows), "r0": r0, "isatty": isatty,
            "buffered": buffered, "profile": profile.name, "rows0": rows}
    ctx.op("terminal %dx%d cursor_row=%d isatty=%s buffered=%s profile=%s %s cost=%s"
           % (cols, rows, r0, isatty, buffered, profile.name, profile.version, cost_mode))
    ctx.op(sc.describe())
    ctx.key(info)
    seq = sc.frame_sequence()
    # "after an animation of any number of frames and loops": an animation that loops forever
    # (or simply longer than the user cares to watch) returns only because of Ctrl-C during
    # one of its inter-frame waits - the picture then is the frame that was on display
    ctrl_c_at = None
    ctrl_c_how = ["sleep"]
    if sc.animation and not sc.expect_error and len(seq) >= 1 and ch.bool("ctrl_c", 0.25):
        if sc.kind == "anim" and ch.bool("forever", 0.5):
            sc.loops = -1
            seq = seq * 4
            ctx.probe("infinite_animation_ended_by_ctrl_c")
        ctrl_c_at = ch.int("ctrl_c_at", 0, min(len(seq) - 1, 9))
        # ... or just as the write of the next frame begins, before a byte of it went out: the
        # screen is in the very same state
        if ctrl_c_at < len(seq) - 1 and ch.bool("at_write_start", 0.35):
            ctrl_c_how[0] = "write_start"
            ctx.probe("ctrl_c_as_next_frame_write_begins")
        # ... or right after the first frame went out, as the write that takes the cursor
        # back to the top-left of the region begins: the first frame is on display, the cursor
        # still at the end of its last line
        if ch.bool("at_first_cursor_return", 0.2):
            ctrl_c_how[0] = "first_cursor_return"
            ctrl_c_at = 0
            ctx.probe("ctrl_c_as_first_cursor_return_begins")
        seq = seq[:ctrl_c_at + 1]
        ctx.op("Ctrl-C %s frame #%d (loops=%d)" % (
            "as the cursor is about to be taken back after" if ctrl_c_how[0] ==
            "first_cursor_return" else "during the wait after", ctrl_c_at, sc.loops))
        ctx.key("ctrl_c", ctrl_c_at, sc.loops)
    H, W = sc.H, sc.W
    s_anim = max(0, r0 + H - rows)
    s_final = max(0, r0 + H - (rows - 1))
    if sc.pad.kind == "aligned" and (sc.pad.width <= 0 or sc.pad.height <= 0):
        ctx.probe("relative_padding_resolved")
    if not sc.pad.fill:
        ctx.probe("empty_fill")
    if not isatty:
        ctx.probe("not_a_tty")
    shown = []

    def frame_on_screen(top, left_pad, top_pad):
        """Decode which frame the render rectangle shows (from the cell colours)."""
        r, c = top + top_pad, left_pad
        if 0 <= r < vt.rows and c < vt.cols:
            cell = vt.grid[r][c]
            if isinstance(cell[1], tuple) and len(cell[1]) == 3 and cell[0] != "\0":
                return cell[1][0]
        return None

    def on_sleep(secs):
        j = len(shown)
        check(j < 500, "animation_did_not_end", dict(info, sleeps=j), "animate")
        top = r0 - s_anim
        f = seq[j] if j < len(seq) else None
        shown.append(f)
        inf = dict(info, frame_index=j, expected_frame=f, scroll=s_anim)
        check(j < len(seq), "more_frames_shown_than_documented", inf, "animate")
        check(vt.scroll_count == s_anim, "gratuitous_scroll_during_animation",
              lambda: dict(inf, scrolled=vt.scroll_count), "animate")
        dw.check_region_cells(vt, top, 0, sc.expected_region(f, rows, s_anim, top), inf,
                              "animate", "frame_not_drawn_over_same_cells")
        dw.check_outside(vt, rows, s_anim, (top, 0, top + H, W), inf, "animate")
        if j == ctrl_c_at:
            if ctrl_c_how[0] == "write_start":
                k.fault = {"kind": "out.write", "k": k.counts.get("out.write", 0) + 1,
                           "when": "before", "exc": "KeyboardInterrupt"}
                k.fault_done = False
                return
            ctx.probe("ctrl_c_during_inter_frame_wait")
            raise KeyboardInterrupt

    with w:
        sc.build()
        animation = sc.animation
        if animation and not sc.expect_error:
            k.on_sleep = on_sleep
        exc = None
        bytes0 = len(out.sink) + len(out.buf)
        tc0 = k.counts.get("tty.tcsetattr", 0) + k.counts.get("tty.tcsetattr.restore", 0)
        if ctrl_c_how[0] == "first_cursor_return":
            real_write = out.write
            armed = [True]

            def write_until_cursor_return(text):
                if armed[0] and text.startswith("\r"):
                    armed[0] = False
                    raise KeyboardInterrupt
                return real_write(text)

            out.write = write_until_cursor_return
        try:
            sc.call()
        except Violation:
            raise
        except Exception as e:
            exc = e
        finally:
            out.__dict__.pop("write", None)
        k.on_sleep = None
        ctx.op("-> %s; %d frames shown, scrolled %d, cursor (%d,%d)"
               % ("raised %r" % (exc,) if exc else "returned", len(shown), vt.scroll_count,
                  vt.r, vt.c))
        ctx.log("result", type(exc).__name__ if exc else None, len(shown), vt.scroll_count,
                vt.r, vt.c)
        written = len(out.sink) + len(out.buf) - bytes0
        if sc.expect_error:
            ctx.probe("size_rejected")
            check(exc is not None and type(exc).__name__ == sc.expect_error,
                  "size_validation_accepted_a_size_that_does_not_fit",
                  dict(info, got=repr(exc), W=W, H=H), "validate")
            check(written == 0, "bytes_written_before_size_rejection",
                  dict(info, written=written), "validate")
            dw.terminal_restored(vt, tty, entry, True, info, "validate")
            return
        check(exc is None, "draw_raised_for_a_size_that_fits",
              dict(info, exc=repr(exc), W=W, H=H), "validate")
        out.drain()
        dw.terminal_restored(vt, tty, entry, True, info, "return")
        check(not vt.errors, "malformed_control_sequence_written",
              lambda: dict(info, errors=vt.errors[:3]), "return")
        if not isatty:
            check(vt.hide_show == 0, "cursor_visibility_sequence_written_to_non_tty",
                  dict(info, n=vt.hide_show), "return")
            tc1 = k.counts.get("tty.tcsetattr", 0) + k.counts.get("tty.tcsetattr.restore", 0)
            check(tc1 == tc0, "termios_touched_for_non_tty_stdout", info, "return")
        if sc.kind == "indef" and sc.animate and sc.stream_len == 0:
            ctx.probe("zero_frame_indefinite")
            return
        if sc.too_wide:
            return  # unchecked size that does not fit the width: wrapping, nothing promised
        if animation:
            # (no inter-frame wait is reached when Ctrl-C comes right after the first frame)
            n_waits = 0 if ctrl_c_how[0] == "first_cursor_return" else len(seq)
            check(len(shown) == n_waits, "fewer_frames_shown_than_documented",
                  dict(info, shown=len(shown), expected=n_waits), "animate")
        last = seq[-1]
        top = r0 - s_final
        inf = dict(info, scroll=s_final, frame=last)
        if s_final:
            ctx.probe("forced_scroll")
        if r0 + H >= rows:
            ctx.probe("region_ends_on_bottom_row")
        if W == cols:
            ctx.probe("padded_width_equals_terminal_width")
        if H > rows:
            ctx.probe("tall_still_scrolls")
        check(vt.scroll_count == s_final, "scrolled_more_or_less_than_the_region_required",
              lambda: dict(inf, scrolled=vt.scroll_count), "return")
        dw.check_region_cells(vt, top, 0, sc.expected_region(last, rows, s_final, top), inf,
                              "return", "last_frame_not_in_place")
        dw.check_outside(vt, rows, s_final, (top, 0, top + H, W), inf, "return")
        check((vt.r, vt.c) == (min(rows - 1, top + H), 0), "cursor_not_at_start_of_line_below",
              lambda: dict(inf, cursor=(vt.r, vt.c), expected=(top + H, 0)), "return")
        l, t, r_, b = sc.margins
        if len(seq) >= 2 or ((l or r_) and (t or b)) or s_final:
            ctx.nontrivial = True
