"""C20 - style settings resolve instance -> nearest class -> default, and unset restores."""
from __future__ import annotations

import io
import re

from simkit import images
from simkit.core import Violation, check
from simkit.vterm import Profile
from simkit.world import World

ID = "C20"
LEVEL = "exploration"
TECHNIQUE = ("deterministic simulation (weak fit): seeded programs (style-subclass trees with "
             "instances) and set / unset / read / render histories on a freshly booted library "
             "per world, compared step by step with an override-map reference model")
LEVEL_TEXT = ("Class attributes mutated by a history are process-global state, so every world "
              "boots the library afresh (real import, real support detection against a simulated "
              "Konsole that supports all three styles). A seeded tree of subclasses (depth <= 4, "
              "branching <= 3) under KittyImage / ITerm2Image / BlockImage with 0-3 instances per "
              "class is driven by a seeded history of class- and instance-level set / unset "
              "operations (valid and invalid) for every inheritable setting; after every "
              "operation EVERY class and instance is read back (forced_support, jpeg_quality, "
              "read_from_file, native_anim_max_bytes) and compared with the model, and renders of "
              "a two-line image (still, or a two-frame animation drawn frame by frame) with and "
              "without a per-call method override reveal through their "
              "framing (commands per line vs one command) which render method was really used. "
              "No clock, fault or schedule exists in this property; the technique contributes the "
              "program-and-history generator, the reference model, world isolation and minimised "
              "replay files. Sampling, not proof.")
LEVEL_NOTE = ("Trusted: the override-map model (effective = own, else nearest ancestor's, else "
              "default; unset removes; invalid operations change nothing; one global "
              "native_anim_max_bytes), VTerm's command counting. faults_fired is empty by design.")
TIERS = {
    "quick": {"runs": 4000, "max_ops": 30},
    "thorough": {"runs": 150000, "max_ops": 60, "wall_cap": 1500},
}
RULE = ("program = seeded subclass tree + instances; history = <= max_ops operations from "
        "{set/unset render method on class or instance (valid, unknown, wrong type), "
        "forced_support on class (bool / non-bool) and on instance (must be rejected), "
        "jpeg_quality / read_from_file set / delete on class and instance (valid and invalid), "
        "native_anim_max_bytes set / delete on any class and set on an instance (rejected), "
        "render with / without per-call method}; non-trivial = an unset below an ancestor holding "
        "a non-default value, or a set on a sibling, occurs before a read; distinct = hash of "
        "(tree, history)")
PROBES = ["unset_below_non_default_ancestor", "set_on_sibling", "invalid_value_rejected",
          "instance_write_to_class_only_setting_rejected", "per_call_method_override",
          "instance_override_then_unset", "native_anim_max_bytes_shared",
          "render_reveals_lines", "render_reveals_whole", "render_reveals_jpeg",
          "render_reveals_png", "animated_draw_reveals_method", "setting_on_abstract_ancestor",
          "iterator_rerender_reveals_method", "file_backed_iterm2_render",
          "style_subclass_with_mixin", "animated_iterm2_direct_render",
          "subclass_redeclares_render_methods", "method_changed_under_live_iterator",
          "subclass_with_derived_metaclass", "non_string_method_on_instance",
          "instance_rerendered_after_class_wide_change"]
COMPONENTS = {
    "real": ["BaseImage.set_render_method (class and instance forms)", "ImageMeta.forced_support",
             "ITerm2ImageMeta + ClassInstanceProperty / ClassProperty descriptors",
             "Kitty/ITerm2 _render_image method selection", "support detection (real queries)"],
    "stub": ["tty + terminal responder (Konsole profile)", "clock"],
}
ASSUMPTIONS = ["the number of graphics commands in a two-line render identifies the render "
               "method (LINES: one per line, WHOLE/ANIM: one)"]

DEFAULTS = {"method": None, "forced": False, "jpeg": -1, "rff": True}
NAMB_DEFAULT = 2 * 2 ** 20


class Node:
    def __init__(self, cls, parent, family, name):
        self.cls = cls
        self.parent = parent
        self.family = family
        self.name = name
        self.own = {}
        self.instances = []      # [(obj, own dict)]
        self.methods = None      # render methods the class accepts (None: inherited)

    def accepted_methods(self):
        n = self
        while n is not None:
            if n.methods is not None:
                return n.methods
            n = n.parent
        return set()

    def effective(self, setting):
        n = self
        while n is not None:
            if setting in n.own:
                return n.own[setting]
            n = n.parent
        if setting == "method":
            return {"kitty": "lines", "iterm2": "lines", "block": None,
                    "abstract": None}[self.family]
        return DEFAULTS[setting]


def run(ch, ctx, fault=None):
    profile = Profile(name="Konsole", version="23.08.1", xtversion_fmt="space",
                      answers={"da1", "xtversion", "osc10", "osc11", "14t", "16t"},
                      kitty_graphics=True, iterm2_images="placement")
    w = World(ctx, ch, fault, rows=24, cols=80, profile=profile, cell_px=(4, 8))
    w.k.log_seams = False
    key = []
    with w:
        from PIL import Image
        from term_image import image as ti_image
        from term_image.exceptions import StyleError
        pil = Image.new("RGB", (4, 4), (10, 20, 30))
        # a two-frame animated source: an animated draw() renders frame by frame through the
        # image iterator, a different path to the same render-method decision
        pil_anim = Image.open(io.BytesIO(images.anim_bytes(2, 4, 4)))
        anim_objs = []     # kept alive: identity must not be recycled
        # a file-backed source: the iterm2 WHOLE method may hand the file over untouched
        # ("read from file"), a decision that depends on the method used for THAT render
        file_bytes = images.still_bytes(4, 4, "RGB")
        file_path = images.write_tmp(file_bytes, ".png")
        file_objs = []
        # the library's own abstract ancestors are classes "in the ancestry" too: a value set
        # on BaseImage / GraphicsImage / TextImage is what every style below it sees
        n_base = Node(ti_image.BaseImage, None, "abstract", "BaseImage")
        n_graphics = Node(ti_image.GraphicsImage, n_base, "abstract", "GraphicsImage")
        n_text = Node(ti_image.TextImage, n_base, "abstract", "TextImage")
        abstract = [n_base, n_graphics, n_text]
        roots = []
        for fam, cls, par in (("kitty", ti_image.KittyImage, n_graphics),
                              ("iterm2", ti_image.ITerm2Image, n_graphics),
                              ("block", ti_image.BlockImage, n_text)):
            roots.append(Node(cls, par, fam, cls.__name__))
            roots[-1].methods = {"kitty": {"lines", "whole"}, "iterm2": {"lines", "whole", "anim"},
                                 "block": set()}[fam]
        nodes = list(roots)
        # seeded subclass tree
        for _ in range(ch.int("n_sub", 1, 8)):
            parent = ch.pick("parent", nodes)
            depth = 0
            p = parent
            while p.parent is not None and p.parent.family != "abstract":
                depth += 1
                p = p.parent
            if depth >= 3 or sum(1 for n in nodes if n.parent is parent) >= 3:
                continue
            name = "%s_%d" % (parent.name, len(nodes))
            bases = (parent.cls,)
            if ch.bool("mixin", 0.25):
                # an application mixin next to the style class, on either side of it
                mixin = type("Tagged%d" % len(nodes), (), {"tag": "x"})
                bases = (mixin, parent.cls) if ch.bool("mixin_first", 0.6) else (parent.cls, mixin)
                ctx.probe("style_subclass_with_mixin")
            body = {}
            redeclared = None
            if parent.family != "block" and ch.bool("redeclares_methods", 0.15):
                # a style subclass that narrows (or just re-states) the render methods it
                # accepts is still a subclass as far as inheritance of settings goes
                redeclared = {"lines", "whole"}
                body["_render_methods"] = set(redeclared)
                ctx.probe("subclass_redeclares_render_methods")
            meta = type(parent.cls)
            if ch.bool("derived_metaclass", 0.2):
                # an application metaclass (a registry, say) derived from the style's own
                meta = type("Registry%d" % len(nodes), (meta,), {})
                ctx.probe("subclass_with_derived_metaclass")
            sub = meta(name, bases, body)
            nodes.append(Node(sub, parent, parent.family, name))
            nodes[-1].methods = redeclared
        for n in nodes:
            for j in range(ch.int("n_inst", 0, 2)):
                anim = ch.bool("anim_src", 0.3)
                from_file = not anim and ch.bool("file_src", 0.35)
                try:
                    if from_file:
                        obj = n.cls.from_file(file_path, width=3, height=2)
                    else:
                        obj = n.cls(pil_anim if anim else pil, width=3, height=2)
                except Exception as e:
                    raise Violation("instance_construction_failed",
                                    {"class": n.name, "exc": repr(e)}, "init")
                if anim:
                    anim_objs.append(obj)
                if from_file:
                    file_objs.append(obj)
                n.instances.append((obj, {}))
        ctx.op("tree: " + ", ".join("%s(%d inst)" % (n.name, len(n.instances)) for n in nodes))
        concrete = list(nodes)
        nodes = abstract + nodes
        namb = [NAMB_DEFAULT]
        pending_nontrivial = [False]

        def count_commands(render, family):
            if family == "kitty":
                return len(re.findall(r"\x1b_Ga=T", render))
            return len(re.findall(r"\x1b\]1337;File=", render))

        def inst_effective(n, own, setting):
            return own[setting] if setting in own else n.effective(setting)

        def read_all(desc):
            for n in nodes:
                info = {"after": desc, "class": n.name}
                check(n.cls.forced_support is n.effective("forced"),
                      "effective_forced_support_differs_from_model",
                      dict(info, got=n.cls.forced_support, expected=n.effective("forced")), "read")
                if n.family == "iterm2":
                    check(n.cls.jpeg_quality == n.effective("jpeg"),
                          "effective_jpeg_quality_differs_from_model",
                          dict(info, got=n.cls.jpeg_quality, expected=n.effective("jpeg")), "read")
                    check(n.cls.read_from_file is n.effective("rff"),
                          "effective_read_from_file_differs_from_model",
                          dict(info, got=n.cls.read_from_file, expected=n.effective("rff")), "read")
                    check(n.cls.native_anim_max_bytes == namb[0],
                          "native_anim_max_bytes_not_one_global_value",
                          dict(info, got=n.cls.native_anim_max_bytes, expected=namb[0]), "read")
                for idx, (obj, own) in enumerate(n.instances):
                    inf = dict(info, instance=idx)
                    check(obj.forced_support is n.effective("forced"),
                          "effective_forced_support_differs_from_model",
                          dict(inf, got=obj.forced_support, expected=n.effective("forced")), "read")
                    if n.family == "iterm2":
                        check(obj.jpeg_quality == inst_effective(n, own, "jpeg"),
                              "effective_jpeg_quality_differs_from_model",
                              dict(inf, got=obj.jpeg_quality,
                                   expected=inst_effective(n, own, "jpeg")), "read")
                        check(obj.read_from_file is inst_effective(n, own, "rff"),
                              "effective_read_from_file_differs_from_model",
                              dict(inf, got=obj.read_from_file,
                                   expected=inst_effective(n, own, "rff")), "read")
                        check(obj.native_anim_max_bytes == namb[0],
                              "native_anim_max_bytes_not_one_global_value",
                              dict(inf, got=obj.native_anim_max_bytes, expected=namb[0]), "read")

        def render_check(n, obj, own, desc, override=None, via_draw=False):
            if n.family == "block":
                return
            eff = override.lower() if override else inst_effective(n, own, "method")
            animated = any(o is obj for o in anim_objs)
            try:
                if via_draw:
                    # per-call override as a draw() argument (any letter case is documented
                    # as accepted); the bytes go to the simulated stdout
                    n0 = len(w.out.sink)
                    kw = {"method": override} if override else {}
                    if animated:
                        kw["repeat"] = 1
                        ctx.probe("animated_draw_reveals_method")
                    obj.draw(pad_height=1, check_size=False, **kw)
                    w.out.drain()
                    render = bytes(w.out.sink[n0:]).decode()
                else:
                    render = format(obj, "+" + override[0].upper()) if override else str(obj)
            except Exception as e:
                raise Violation("render_raised", {"exc": repr(e), "class": n.name}, "render")
            cmds = count_commands(render, n.family)
            want = 2 if eff == "lines" else 1
            if animated and via_draw:
                want *= 2       # two frames, each rendered with the effective method
            ctx.probe("render_reveals_lines" if want == 2 else "render_reveals_whole")
            if override:
                ctx.probe("per_call_method_override")
            if n.family == "iterm2" and animated and not via_draw:
                # a direct (non-frame) render of an animated image: with ANIM in effect the
                # protocol's native animation is used, i.e. the payload is the animated file
                import base64
                m_ = re.search(r"\x1b\]1337;File=[^:]*:([A-Za-z0-9+/=]{8})", render)
                head = base64.b64decode(m_.group(1))[:4] if m_ else b""
                ctx.probe("animated_iterm2_direct_render")
                check((head == b"GIF8") == (eff == "anim"),
                      "render_did_not_use_the_effective_method",
                      {"after": desc, "class": n.name, "effective": eff, "override": override,
                       "payload_is_the_animated_file": head == b"GIF8"}, "render")
            from_file = any(o is obj for o in file_objs)
            reads_file = n.family == "iterm2" and from_file and eff == "whole" \
                and inst_effective(n, own, "rff")
            if n.family == "iterm2" and from_file and not via_draw:
                import base64
                m_ = re.search(r"\x1b\]1337;File=[^:]*:([A-Za-z0-9+/=]+)", render)
                payload = base64.b64decode(m_.group(1)) if m_ else b""
                ctx.probe("file_backed_iterm2_render")
                # (ANIM on a still image falls back to a WHOLE-style render; whether that
                # fallback also reads from file is an optimisation detail nobody documents)
                check(eff == "anim" or (payload == file_bytes) == bool(reads_file),
                      "read_from_file_decision_differs_from_effective_settings",
                      {"after": desc, "class": n.name, "method_used": eff, "override": override,
                       "read_from_file": inst_effective(n, own, "rff"),
                       "payload_is_the_file": payload == file_bytes}, "render")
            if n.family == "iterm2" and not via_draw and not animated and not reads_file \
                    and not (from_file and eff == "anim"):
                import base64
                m_ = re.search(r"\x1b\]1337;File=[^:]*:([A-Za-z0-9+/=]+)", render)
                if m_:
                    head = base64.b64decode(m_.group(1)[:16] + "=" * (-len(m_.group(1)[:16]) % 4))
                    is_jpeg = head[:3] == b"\xff\xd8\xff"
                    want_jpeg = inst_effective(n, own, "jpeg") >= 0
                    ctx.probe("render_reveals_jpeg" if want_jpeg else "render_reveals_png")
                    check(is_jpeg == want_jpeg, "render_did_not_use_the_effective_jpeg_quality",
                          {"after": desc, "class": n.name, "jpeg_payload": is_jpeg,
                           "effective_jpeg_quality": inst_effective(n, own, "jpeg")}, "render")
            check(cmds == want, "render_did_not_use_the_effective_method",
                  {"after": desc, "class": n.name, "effective": eff, "override": override,
                   "commands": cmds, "expected_commands": want}, "render")
            if pending_nontrivial[0]:
                ctx.nontrivial = True

        def iterate_check(n, obj, own, desc, override):
            """The image iterator renders frame by frame, caches, and re-renders cached frames
            when the image size changed in between: every one of those renders has to use the
            effective method (or the override given in the iterator's format spec)."""
            eff = override.lower() if override else inst_effective(n, own, "method")
            spec = "1.1" + ("+" + override[0].upper() if override else "")
            frames = []
            effs = [eff] * 4
            other = "whole" if eff == "lines" else "lines"
            flip = not override and other in n.accepted_methods() and ch.bool("flip_method", 0.5)
            try:
                it = ti_image.ImageIterator(obj, 2, spec, True)
                try:
                    frames += [next(it)]                    # first loop: rendered and cached
                    if flip:
                        # the effective method changes while the iterator is live: frames
                        # rendered from now on use the new one
                        obj.set_render_method(other)
                        own["method"] = other
                        effs[1:] = [other] * 3
                        ctx.probe("method_changed_under_live_iterator")
                    frames += [next(it)]
                    obj.set_size(width=2, height=2)
                    frames += [next(it), next(it)]          # second loop: stale, re-rendered
                finally:
                    it.close()
                    obj.set_size(width=3, height=2)
            except Exception as e:
                raise Violation("render_raised", {"exc": repr(e), "class": n.name}, "iterate")
            ctx.probe("iterator_rerender_reveals_method")
            for j, fr in enumerate(frames):
                eff = effs[j]
                want = 2 if eff == "lines" else 1
                cmds = count_commands(fr, n.family)
                check(cmds == want, "render_did_not_use_the_effective_method",
                      {"after": desc, "class": n.name, "effective": eff, "override": override,
                       "iterator_frame": j, "commands": cmds, "expected_commands": want},
                      "iterate")

        def expect(fn, exc_names, desc):
            """Run fn; returns True if accepted, False if rejected with one of exc_names."""
            try:
                fn()
                return True
            except Exception as e:
                if type(e).__name__ in exc_names:
                    return False
                raise Violation("unexpected_error_type", {"op": desc, "exc": repr(e)}, "op")

        n_ops = ch.int("n_ops", 4, ctx.cfg["max_ops"])
        for i in range(n_ops):
            op = ch.weighted("op", [
                (6, "cls_method"), (4, "inst_method"), (3, "cls_forced"), (1, "inst_forced"),
                (3, "jpeg"), (3, "rff"), (2, "namb"), (6, "render"),
            ])
            n = ch.pick("node", concrete)
            if op == "cls_forced" and ch.bool("on_abstract_ancestor", 0.25):
                n = ch.pick("abstract", abstract)
                ctx.probe("setting_on_abstract_ancestor")
            desc = op
            if op == "cls_method":
                val = ch.pick("mval", ("lines", "whole", None, None, "WHOLE", "anim", "bogus", 7,
                                       " lines", "whole ", "\tanim"))
                desc = "%s.set_render_method(%r)" % (n.name, val)
                valid_set = n.accepted_methods()
                ok = expect(lambda: n.cls.set_render_method(val), ("ValueError", "TypeError"), desc)
                should = val is None or (isinstance(val, str) and val.lower() in valid_set)
                check(ok == should, "set_render_method_acceptance", {"op": desc, "accepted": ok},
                      "cls_method")
                if not should:
                    ctx.probe("invalid_value_rejected")
                elif val is None:
                    if "method" in n.own and n.parent is not None and \
                            n.parent.effective("method") != {"kitty": "lines", "iterm2": "lines",
                                                             "block": None}[n.family]:
                        ctx.probe("unset_below_non_default_ancestor")
                        pending_nontrivial[0] = ctx.nontrivial = True
                    n.own.pop("method", None)
                elif n.family != "block":
                    n.own["method"] = val.lower()
                    if n.parent is not None and any(s.parent is n.parent and s is not n
                                                    for s in nodes):
                        ctx.probe("set_on_sibling")
                        pending_nontrivial[0] = ctx.nontrivial = True
            elif op == "inst_method":
                if not n.instances:
                    continue
                idx = ch.int("inst", 0, len(n.instances) - 1)
                obj, own = n.instances[idx]
                val = ch.pick("mval", ("lines", "whole", None, "anim", "bogus", "LINES", "Whole",
                                       "ANIM", "Lines", 0, False, (), 7, "", "lines ",
                                       " whole", " anim "))
                desc = "%s#%d.set_render_method(%r)" % (n.name, idx, val)
                valid_set = n.accepted_methods()
                ok = expect(lambda: obj.set_render_method(val), ("ValueError", "TypeError"), desc)
                should = val is None or isinstance(val, str) and val.lower() in valid_set
                if not isinstance(val, str) and val is not None:
                    ctx.probe("non_string_method_on_instance")
                check(ok == should, "set_render_method_acceptance", {"op": desc, "accepted": ok},
                      "inst_method")
                if should:
                    if val is None:
                        if "method" in own:
                            ctx.probe("instance_override_then_unset")
                        own.pop("method", None)
                    else:
                        own["method"] = val.lower()
            elif op == "cls_forced":
                val = ch.pick("fval", (True, False, 1, None))
                desc = "%s.forced_support = %r" % (n.name, val)

                def setf():
                    n.cls.forced_support = val
                ok = expect(setf, ("TypeError",), desc)
                check(ok == isinstance(val, bool), "forced_support_acceptance",
                      {"op": desc, "accepted": ok}, "cls_forced")
                if isinstance(val, bool):
                    n.own["forced"] = val
                else:
                    ctx.probe("invalid_value_rejected")
            elif op == "inst_forced":
                if not n.instances:
                    continue
                obj, own = n.instances[0]
                desc = "%s#0.forced_support = True" % n.name

                def setf():
                    obj.forced_support = True
                ok = expect(setf, ("AttributeError",), desc)
                check(not ok, "instance_write_to_class_only_setting_accepted", {"op": desc},
                      "inst_forced")
                ctx.probe("instance_write_to_class_only_setting_rejected")
            elif op in ("jpeg", "rff"):
                if n.family != "iterm2":
                    continue
                attr = "jpeg_quality" if op == "jpeg" else "read_from_file"
                on_inst = bool(n.instances) and ch.bool("on_inst", 0.4)
                if on_inst:
                    idx = ch.int("inst", 0, len(n.instances) - 1)
                    target, own = n.instances[idx]
                    tname = "%s#%d" % (n.name, idx)
                else:
                    target, own, tname = n.cls, n.own, n.name
                if ch.bool("delete", 0.35):
                    desc = "del %s.%s" % (tname, attr)
                    delattr(target, attr)
                    if op in own and not on_inst and n.parent is not None and \
                            n.parent.effective(op) != DEFAULTS[op]:
                        ctx.probe("unset_below_non_default_ancestor")
                        pending_nontrivial[0] = ctx.nontrivial = True
                    own.pop(op, None)
                else:
                    if op == "jpeg":
                        val = ch.pick("jval", (0, 50, 95, -1, -5, 96, 200, "hi", 7.5))
                        should = isinstance(val, int) and val <= 95
                    else:
                        val = ch.pick("rval", (True, False, 0, None))
                        should = isinstance(val, bool)
                    desc = "%s.%s = %r" % (tname, attr, val)

                    def sets():
                        setattr(target, attr, val)
                    ok = expect(sets, ("TypeError", "ValueError"), desc)
                    check(ok == should, "setting_acceptance", {"op": desc, "accepted": ok}, op)
                    if should:
                        own[op] = val
                    else:
                        ctx.probe("invalid_value_rejected")
            elif op == "namb":
                if n.family != "iterm2":
                    continue
                kind = ch.pick("nk", ("set", "set", "del", "bad", "inst"))
                if kind == "set":
                    val = ch.pick("nv", (1, 1000, 5 * 2 ** 20))
                    n.cls.native_anim_max_bytes = val
                    namb[0] = val
                    desc = "%s.native_anim_max_bytes = %d" % (n.name, val)
                    ctx.probe("native_anim_max_bytes_shared")
                elif kind == "del":
                    del n.cls.native_anim_max_bytes
                    namb[0] = NAMB_DEFAULT
                    desc = "del %s.native_anim_max_bytes" % n.name
                elif kind == "bad":
                    val = ch.pick("nbv", (0, -1, 2.5, "x"))
                    desc = "%s.native_anim_max_bytes = %r" % (n.name, val)

                    def setn():
                        n.cls.native_anim_max_bytes = val
                    ok = expect(setn, ("TypeError", "ValueError"), desc)
                    check(not ok, "invalid_native_anim_max_bytes_accepted", {"op": desc}, "namb")
                    ctx.probe("invalid_value_rejected")
                else:
                    if not n.instances:
                        continue
                    obj = n.instances[0][0]
                    desc = "%s#0.native_anim_max_bytes = 5" % n.name

                    def setn():
                        obj.native_anim_max_bytes = 5
                    ok = expect(setn, ("AttributeError",), desc)
                    check(not ok, "instance_write_to_class_only_setting_accepted", {"op": desc},
                          "namb")
                    ctx.probe("instance_write_to_class_only_setting_rejected")
            else:
                if n.family == "block":
                    continue
                if n.instances and ch.bool("existing", 0.6):
                    idx = ch.int("inst", 0, len(n.instances) - 1)
                    obj, own = n.instances[idx]
                    who = "%s#%d" % (n.name, idx)
                else:
                    try:
                        anim = ch.bool("anim_src", 0.3)
                        obj, own = n.cls(pil_anim if anim else pil, width=3, height=2), {}
                        if anim:
                            anim_objs.append(obj)
                    except StyleError as e:
                        raise Violation("instance_construction_failed",
                                        {"class": n.name, "exc": repr(e)}, "render")
                    who = "%s()" % n.name
                if any(o is obj for o in anim_objs) and ch.bool("via_iter", 0.35):
                    override = ch.pick("override_i", (None, "lines", "whole") +
                                       (("anim",) if n.family == "iterm2" else ()))
                    desc = "iterate %s twice with a resize in between%s" % (
                        who, " spec +%s" % override[0].upper() if override else "")
                    iterate_check(n, obj, own, desc, override)
                    ctx.op(desc)
                    key.append(desc)
                    read_all(desc)
                    continue
                via_draw = ch.bool("via_draw", 0.4)
                if via_draw:
                    override = ch.pick("override_d", (None, "lines", "LINES", "Lines", "whole",
                                                      "WHOLE", "Whole"))
                else:
                    override = ch.pick("override", (None, None, "lines", "whole"))
                desc = "%s %s%s" % ("draw" if via_draw else "render", who,
                                    " with method=%s" % override if override else "")
                render_check(n, obj, own, desc, override, via_draw)
                if override is None and "method" not in own and ch.bool("class_changes_around", 0.3):
                    # the class-wide method is set (in some letter case), the instance rendered,
                    # the class-wide method changed, the same instance rendered again: an
                    # instance without a method of its own follows its class every time
                    a = n
                    while a.parent is not None and a.parent.family == n.family \
                            and ch.bool("higher", 0.4):
                        a = a.parent
                    first = ch.pick("first_method", ("WHOLE", "Whole", "LINES", "Lines", "whole"))
                    second = ch.pick("second_method", ("lines", "LINES", "Lines")
                                     if first.lower() == "whole" else ("whole", "WHOLE", "Whole"))
                    if {"lines", "whole"} <= set(a.accepted_methods()):
                        for val in (first, second):
                            a.cls.set_render_method(val)
                            a.own["method"] = val.lower()
                            d2 = "%s.set_render_method(%r); render %s again" % (a.name, val, who)
                            render_check(n, obj, own, d2)
                            ctx.op(d2)
                            key.append(d2)
                        ctx.probe("instance_rerendered_after_class_wide_change")
            ctx.op(desc)
            key.append(desc)
            read_all(desc)
        try:
            import os
            os.remove(file_path)
        except OSError:
            pass
        ctx.key([(n.name, len(n.instances)) for n in nodes], key)
        ctx.log("trace", key)
