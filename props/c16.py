"""C16 - render-argument sets obey their precedence, compatibility and immutability laws."""
from __future__ import annotations

from simkit.core import Violation, check
from simkit.world import World

ID = "C16"
LEVEL = "exploration"
TECHNIQUE = ("deterministic simulation (weakest fit): seeded programs (render-class trees with "
             "argument namespaces) and operation histories on RenderArgs / ArgsNamespace, checked "
             "against a value-level reference model plus a snapshot-immutability invariant after "
             "every operation")
LEVEL_TEXT = ("There is no clock, I/O or fault in this property; what makes it more than a pure "
              "function is hidden shared state - the per-class intern table, the shared default "
              "set of a class and the constructor shortcut that returns its argument - so results "
              "can depend on what was constructed earlier. Seeded class trees (depth <= 4, "
              "branching <= 3, a seeded subset owning namespaces with 1-3 defaulted fields) and "
              "histories of constructor / update / convert / | / + / to_render_args / ==, hash, "
              "in, [] operations are compared with a dict-based model (last namespace given per "
              "class, else the initial set's, else the default; accepted iff every constituent "
              "belongs to the target class or an ancestor), and after EVERY operation the deep "
              "value snapshot of every object created so far and of every class's default set "
              "must be unchanged. Namespace-class definition rules are exercised negatively. "
              "No faults exist to inject (faults_fired is empty by design). Sampling, not proof.")
LEVEL_NOTE = ("Trusted: the value model in props/c16.py. If this is judged to be model-based "
              "testing rather than simulation the honest downgrade is not_applicable; it is kept "
              "because the failure mode the property names (aliasing through interning) is "
              "history-dependent.")
TIERS = {
    "quick": {"runs": 12000, "max_ops": 40},
    "thorough": {"runs": 500000, "max_ops": 80, "wall_cap": 1200},
}
RULE = ("program = seeded render-class tree + namespace classes; history = <= max_ops operations "
        "over the pools of created RenderArgs / ArgsNamespace objects; non-trivial = an operation "
        "took a previously created non-default object as input after at least 3 earlier "
        "constructions; distinct = hash of (tree, history)")
PROBES = ["interned_default_returned", "init_returned_itself", "incompatible_init_rejected",
          "incompatible_namespace_rejected", "convert_to_parent_drops_namespaces",
          "ror_used", "equal_sets_hash_equal", "negative_namespace_definition",
          "last_namespace_wins", "inheriting_namespace_subclass",
          "namespace_with_converting_constructor", "plain_mixin_among_bases",
          "render_args_subclass", "explicit_none_before_namespaces",
          "unknown_field_is_another_class_field", "unknown_field_named_like_an_attribute",
          "base_default_set_as_initial_set", "set_with_unhashable_field_value"]
COMPONENTS = {
    "real": ["RenderArgs (__new__/__init__ interning, update, convert, __eq__, __hash__, "
             "__contains__, __getitem__)", "ArgsNamespace (__or__, __ror__, __pos__, update, "
             "to_render_args, __eq__, __hash__)", "namespace metaclasses", "RenderableMeta"],
    "stub": [],
}
ASSUMPTIONS = ["namespace classes are associated before their render class is subclassed or "
               "used, as the documentation requires"]


def args_classes_early(classes):
    return [i for i, c in enumerate(classes) if c["fields"] is not None]


UNHASHABLE = [7]      # a field value like any other; a set holding it cannot be hashed


def run(ch, ctx, fault=None):
    w = World(ctx, ch, fault, rows=5, cols=10, reuse=True)
    w.k.log_seams = False
    with w:
        R = w.ti.renderable
        Renderable, RenderArgs, ArgsNamespace = R.Renderable, R.RenderArgs, R.ArgsNamespace
        # ------------------------------------------------------------ program: class tree
        classes = []      # dicts: cls, parent idx, fields {name: default} or None, Args

        def new_class(parent_idx):
            base = Renderable if parent_idx is None else classes[parent_idx]["cls"]
            name = "C%d" % len(classes)
            bases = (base,)
            if ch.bool("mixin", 0.2):
                # a plain (non-render) mixin next to the render base, on either side of it
                mixin = type("Mixin%d" % len(classes), (), {"helper": lambda self: None})
                bases = (mixin, base) if ch.bool("mixin_first", 0.5) else (base, mixin)
                ctx.probe("plain_mixin_among_bases")
            cls = type(base)(name, bases, {
                "_get_render_size_": lambda self: None, "_render_": lambda self, a, b: None})
            d = {"cls": cls, "parent": parent_idx, "fields": None, "Args": None, "ArgsSub": None,
                 "name": name}
            if ch.bool("has_args", 0.65):
                nf = ch.int("n_fields", 1, 3)
                fields = {"f%d" % j: ch.int("default", 0, 3) for j in range(nf)}
                ns = {"__annotations__": {k_: int for k_ in fields}}
                ns.update(fields)
                d["defaults"] = dict(fields)
                if ch.bool("custom_init", 0.25):
                    # a converting constructor (allowed: no required parameters).  It is NOT
                    # idempotent, so any operation that re-runs it on existing values shows
                    names_ = list(fields)

                    def __init__(self, *values, _names=names_, _fields=dict(fields), **kw):
                        vals = dict(_fields)
                        vals.update(zip(_names, values))
                        vals.update(kw)
                        if len(values) <= len(_names):
                            vals[_names[0]] = vals[_names[0]] + 1000
                        ArgsNamespace.__init__(self, **vals)
                    ns["__init__"] = __init__
                    d["custom_init"] = True
                    d["defaults"][names_[0]] += 1000
                    ctx.probe("namespace_with_converting_constructor")
                d["Args"] = type(ArgsNamespace)(name + "Args", (ArgsNamespace,), ns,
                                                render_cls=cls)
                d["fields"] = fields
                # a namespace subclass that merely inherits the fields (and the association)
                # is the same kind of namespace as far as every law is concerned
                d["ArgsSub"] = None
                if ch.bool("ns_subclass", 0.4):
                    d["ArgsSub"] = type(ArgsNamespace)(name + "ArgsSub", (d["Args"],), {})
            classes.append(d)
            return len(classes) - 1

        new_class(None)
        for _ in range(ch.int("n_classes", 1, 7)):
            p = ch.int("parent", 0, len(classes) - 1)
            depth = 0
            q = p
            while classes[q]["parent"] is not None:
                q = classes[q]["parent"]
                depth += 1
            if depth >= 3 or sum(1 for c in classes if c["parent"] == p) >= 3:
                continue
            new_class(p)

        def ancestry(i):
            out = []
            while i is not None:
                out.append(i)
                i = classes[i]["parent"]
            return out      # self first

        def with_args(i):
            return [j for j in ancestry(i) if classes[j]["fields"] is not None]

        def is_ancestor_or_self(a, b):
            """a is b or an ancestor of b."""
            return a in ancestry(b)

        ctx.op("classes: " + ", ".join(
            "%s(%s)%s" % (c["name"], "Renderable" if c["parent"] is None
                          else classes[c["parent"]]["name"],
                          " Args%s" % (c["fields"],) if c["fields"] else "") for c in classes))

        # ------------------------------------------------------------ model values
        def default_value(i):
            return {j: dict(classes[j]["defaults"]) for j in with_args(i)}

        def ra_snapshot(obj):
            return (obj.render_cls,
                    tuple((cls, tuple(ns.as_dict().items())) for cls, ns in obj._namespaces.items()))

        def ns_snapshot(obj):
            return (type(obj)._RENDER_CLS, tuple(obj.as_dict().items()))

        idx_of = {c["cls"]: i for i, c in enumerate(classes)}
        ras = []     # (obj, class idx, model dict)
        nss = []     # (obj, class idx, model dict)
        snaps = []   # (kind, obj, snapshot)
        defaults = {}
        for i in range(len(classes)):
            obj = RenderArgs(classes[i]["cls"])
            defaults[i] = obj
            ras.append((obj, i, default_value(i)))
            snaps.append(("ra", obj, ra_snapshot(obj)))
        # the shared default namespace objects a class hands out are legitimate operands too
        for i in args_classes_early(classes):
            shared = defaults[i][classes[i]["cls"]]
            nss.append((shared, i, dict(classes[i]["defaults"])))
            snaps.append(("ns", shared, ns_snapshot(shared)))
        constructions = [0]
        key = []

        def check_ra(obj, i, model, desc):
            check(obj.render_cls is classes[i]["cls"], "render_cls_wrong", {"op": desc}, "value")
            got = {idx_of[cls]: ns.as_dict() for cls, ns in obj._namespaces.items()}
            check(got == model, "render_args_value_differs_from_model",
                  {"op": desc, "got": repr(got), "expected": repr(model)}, "value")
            for j in model:
                check(obj[classes[j]["cls"]].as_dict() == model[j], "getitem_differs",
                      {"op": desc}, "value")

        def add_ra(obj, i, model, desc):
            check_ra(obj, i, model, desc)
            ras.append((obj, i, model))
            snaps.append(("ra", obj, ra_snapshot(obj)))
            constructions[0] += 1

        def add_ns(obj, i, model, desc):
            check(obj.as_dict() == model, "namespace_value_differs_from_model",
                  {"op": desc, "got": obj.as_dict(), "expected": model}, "value")
            nss.append((obj, i, model))
            snaps.append(("ns", obj, ns_snapshot(obj)))
            constructions[0] += 1

        def model_ctor(target, init, namespaces):
            """Returns (model dict) or the name of the documented error."""
            if init is not None and not is_ancestor_or_self(init[1], target):
                return "IncompatibleRenderArgsError"
            m = default_value(target)
            if init is not None:
                for j, v in init[2].items():
                    if j in m:
                        m[j] = dict(v)
            for (_, j, v) in namespaces:
                if j not in m:
                    return "IncompatibleArgsNamespaceError"
                m[j] = dict(v)
            return m

        def attempt(fn, desc):
            try:
                return ("ok", fn())
            except Exception as e:
                return ("exc", type(e).__name__)

        def unknown_name(i):
            """a keyword that is not a field of class i's namespace: made up, the name of
            something else the namespace object has, or a field of another class"""
            own = set(classes[i]["fields"] or ())
            others = sorted({n for c in classes for n in (c["fields"] or ()) if n not in own})
            pool = ["zzz", "nope", "as_dict", "update", "get_fields", "get_render_cls",
                    "to_render_args", "_FIELDS", "_RENDER_CLS", "__class__"] + others
            name = ch.pick("unknown_name", pool)
            if name in others:
                ctx.probe("unknown_field_is_another_class_field")
            elif name not in ("zzz", "nope"):
                ctx.probe("unknown_field_named_like_an_attribute")
            return name

        def more_derived(a, b):
            if is_ancestor_or_self(b, a):
                return a
            if is_ancestor_or_self(a, b):
                return b
            return None

        args_classes = [i for i, c in enumerate(classes) if c["fields"] is not None]
        SubRenderArgs = type("SubRenderArgs", (RenderArgs,), {})
        n_ops = ch.int("n_ops", 5, ctx.cfg["max_ops"])
        for step in range(n_ops):
            op = ch.weighted("op", [
                (5, "ns_new"), (3, "ns_update"), (6, "ctor"), (4, "update_ns"), (3, "update_kw"),
                (3, "convert"), (3, "or_ns_ns"), (3, "or_ns_ra"), (3, "or_ra_ns"), (2, "pos"),
                (2, "to_ra"), (3, "eq_hash"), (2, "contains"), (1, "negative"),
            ])
            desc = op
            used_old = False
            if op in ("ns_new", "ns_update", "or_ns_ns", "pos", "to_ra") and not args_classes:
                continue
            if op == "ns_new":
                i = ch.pick("cls", args_classes)
                fields = classes[i]["fields"]
                names = list(fields)
                vals = {n: ch.int("val", 0, 4) for n in names if ch.bool("give", 0.6)}
                positional = ch.bool("positional", 0.4)
                ns_cls = classes[i]["Args"]
                if classes[i]["ArgsSub"] is not None and ch.bool("use_sub", 0.5):
                    ns_cls = classes[i]["ArgsSub"]
                    ctx.probe("inheriting_namespace_subclass")
                if positional:
                    npos = ch.int("npos", 0, len(names))
                    pos = [vals.get(n, fields[n]) for n in names[:npos]]
                    kw = {n: v for n, v in vals.items() if n not in names[:npos]}
                    obj = ns_cls(*pos, **kw)
                    model = dict(fields)
                    model.update(dict(zip(names[:npos], pos)))
                    model.update(kw)
                else:
                    obj = ns_cls(**vals)
                    model = dict(fields)
                    model.update(vals)
                if classes[i].get("custom_init"):
                    model[names[0]] += 1000
                desc = "%s(%s) -> %s" % (ns_cls.__name__, vals, model)
                add_ns(obj, i, model, desc)
            elif op == "ns_update":
                if not nss:
                    continue
                obj, i, m = ch.pick("ns", nss)
                used_old = True
                names = list(classes[i]["fields"])
                # (None is a value like any other: an optional field reset to "nothing")
                upd = {n: ch.pick("uval", (0, 1, 2, 3, 4, None, UNHASHABLE)) for n in names
                       if ch.bool("give", 0.5)}
                if ch.bool("unknown", 0.1):
                    bad = dict(upd)
                    bad[unknown_name(i)] = 1
                    res = attempt(lambda: obj.update(**bad), op)
                    check(res == ("exc", "UnknownArgsFieldError"), "unknown_field_accepted",
                          {"res": repr(res), "update": bad, "fields": names}, "ns_update")
                    desc = "ns.update(%s) rejected" % bad
                else:
                    new = obj.update(**upd)
                    m2 = dict(m)
                    m2.update(upd)
                    desc = "%sArgs%s.update(%s)" % (classes[i]["name"], m, upd)
                    add_ns(new, i, m2, desc)
            elif op == "ctor":
                target = ch.int("target", 0, len(classes) - 1)
                init = ch.pick("init", ras) if ch.bool("with_init", 0.6) else None
                nsl = [ch.pick("ns", nss) for _ in range(ch.int("n_ns", 0, 3))] if nss else []
                exp = model_ctor(target, init, nsl)
                args = ([init[0]] if init is not None else []) + [n[0] for n in nsl]
                if init is None and nsl and ch.bool("explicit_none", 0.3):
                    args = [None] + args        # "no initial set", spelt out
                    ctx.probe("explicit_none_before_namespaces")
                elif init is None and ch.bool("base_set_as_init", 0.15):
                    # the default set of Renderable itself (it holds nothing and is compatible
                    # with every class) as the initial set
                    args = [RenderArgs(Renderable)] + args
                    ctx.probe("base_default_set_as_initial_set")
                # the concrete class of a set is immaterial to every law (an application may
                # subclass RenderArgs): equal sets of different concrete classes are equal
                ra_cls = RenderArgs
                if ch.bool("ra_subclass", 0.25):
                    ra_cls = SubRenderArgs
                    ctx.probe("render_args_subclass")
                res = attempt(lambda: ra_cls(classes[target]["cls"], *args), op)
                desc = "RenderArgs(%s, init=%s, ns=%s)" % (
                    classes[target]["name"],
                    init and (classes[init[1]]["name"], init[2]),
                    [(classes[n[1]]["name"], n[2]) for n in nsl])
                used_old = init is not None or bool(nsl)
                if isinstance(exp, str):
                    check(res == ("exc", exp), "incompatible_constituent_not_rejected_as_documented",
                          {"op": desc, "got": repr(res), "expected": exp}, "ctor")
                    ctx.probe("incompatible_init_rejected" if "RenderArgs" in exp
                              else "incompatible_namespace_rejected")
                else:
                    check(res[0] == "ok", "compatible_constituents_rejected",
                          {"op": desc, "got": repr(res)}, "ctor")
                    obj = res[1]
                    if obj is defaults.get(target):
                        ctx.probe("interned_default_returned")
                    if init is not None and obj is init[0]:
                        ctx.probe("init_returned_itself")
                    if len({n[1] for n in nsl}) < len(nsl):
                        ctx.probe("last_namespace_wins")
                    add_ra(obj, target, exp, desc)
            elif op == "update_ns":
                if not nss:
                    continue
                obj, i, m = ch.pick("ra", ras)
                nsl = [ch.pick("ns", nss) for _ in range(ch.int("n_ns", 1, 2))]
                used_old = True
                exp = model_ctor(i, (obj, i, m), nsl)
                res = attempt(lambda: obj.update(*[n[0] for n in nsl]), op)
                desc = "RenderArgs(%s %s).update(%s)" % (classes[i]["name"], m,
                                                         [(classes[n[1]]["name"], n[2]) for n in nsl])
                if isinstance(exp, str):
                    check(res == ("exc", exp), "incompatible_constituent_not_rejected_as_documented",
                          {"op": desc, "got": repr(res), "expected": exp}, "update")
                else:
                    check(res[0] == "ok", "compatible_constituents_rejected",
                          {"op": desc, "got": repr(res)}, "update")
                    add_ra(res[1], i, exp, desc)
            elif op == "update_kw":
                obj, i, m = ch.pick("ra", ras)
                j = ch.int("cls", 0, len(classes) - 1)
                used_old = True
                fields = classes[j]["fields"]
                upd = {n: ch.pick("uval", (0, 1, 2, 3, 4, None, UNHASHABLE)) for n in (fields or {"f0": 0})
                       if ch.bool("give", 0.6)}
                res = attempt(lambda: obj.update(classes[j]["cls"], **upd), op)
                desc = "RenderArgs(%s).update(%s, %s)" % (classes[i]["name"], classes[j]["name"], upd)
                if not is_ancestor_or_self(j, i):
                    check(res == ("exc", "ValueError"), "update_for_unrelated_class",
                          {"op": desc, "got": repr(res)}, "update_kw")
                elif fields is None:
                    check(res == ("exc", "NoArgsNamespaceError"), "update_for_class_without_args",
                          {"op": desc, "got": repr(res)}, "update_kw")
                else:
                    check(res[0] == "ok", "valid_update_rejected", {"op": desc, "got": repr(res)},
                          "update_kw")
                    if ch.bool("unknown_kw", 0.15):
                        bad = dict(upd)
                        bad[unknown_name(j)] = 1
                        res2 = attempt(lambda: obj.update(classes[j]["cls"], **bad), op)
                        check(res2 == ("exc", "UnknownArgsFieldError"), "unknown_field_accepted",
                              {"op": "RenderArgs.update(%s, %s)" % (classes[j]["name"], bad),
                               "got": repr(res2)}, "update_kw")
                    m2 = {a: dict(b) for a, b in m.items()}
                    m2[j].update(upd)
                    add_ra(res[1], i, m2, desc)
            elif op == "convert":
                obj, i, m = ch.pick("ra", ras)
                j = ch.int("cls", 0, len(classes) - 1)
                used_old = True
                res = attempt(lambda: obj.convert(classes[j]["cls"]), op)
                desc = "RenderArgs(%s %s).convert(%s)" % (classes[i]["name"], m, classes[j]["name"])
                if is_ancestor_or_self(i, j):          # to a child (or same)
                    exp = default_value(j)
                    for a, b in m.items():
                        exp[a] = dict(b)
                elif is_ancestor_or_self(j, i):        # to a parent
                    exp = {a: dict(b) for a, b in m.items() if a in default_value(j)}
                    ctx.probe("convert_to_parent_drops_namespaces")
                else:
                    exp = "ValueError"
                if isinstance(exp, str):
                    check(res == ("exc", exp), "convert_to_unrelated_class_accepted",
                          {"op": desc, "got": repr(res)}, "convert")
                else:
                    check(res[0] == "ok", "valid_convert_rejected", {"op": desc, "got": repr(res)},
                          "convert")
                    add_ra(res[1], j, exp, desc)
            elif op == "or_ns_ns":
                if len(nss) < 1:
                    continue
                a, b = ch.pick("a", nss), ch.pick("b", nss)
                used_old = True
                t = more_derived(a[1], b[1])
                res = attempt(lambda: a[0] | b[0], op)
                desc = "%sArgs%s | %sArgs%s" % (classes[a[1]]["name"], a[2], classes[b[1]]["name"],
                                                b[2])
                if t is None:
                    check(res == ("exc", "IncompatibleArgsNamespaceError"),
                          "incompatible_constituent_not_rejected_as_documented",
                          {"op": desc, "got": repr(res)}, "or")
                else:
                    exp = model_ctor(t, None, [a, b])
                    check(res[0] == "ok", "compatible_constituents_rejected",
                          {"op": desc, "got": repr(res)}, "or")
                    add_ra(res[1], t, exp, desc)
            elif op in ("or_ns_ra", "or_ra_ns"):
                if not nss:
                    continue
                a, r = ch.pick("a", nss), ch.pick("r", ras)
                used_old = True
                t = more_derived(a[1], r[1])
                if op == "or_ns_ra":
                    res = attempt(lambda: a[0] | r[0], op)
                else:
                    res = attempt(lambda: r[0] | a[0], op)
                    ctx.probe("ror_used")
                desc = "%s: %sArgs%s with RenderArgs(%s %s)" % (op, classes[a[1]]["name"], a[2],
                                                                classes[r[1]]["name"], r[2])
                if t is None:
                    check(res == ("exc", "IncompatibleRenderArgsError"),
                          "incompatible_constituent_not_rejected_as_documented",
                          {"op": desc, "got": repr(res)}, "or")
                else:
                    exp = model_ctor(t, r, [a])
                    check(res[0] == "ok", "compatible_constituents_rejected",
                          {"op": desc, "got": repr(res)}, "or")
                    add_ra(res[1], t, exp, desc)
            elif op in ("pos", "to_ra"):
                if not nss:
                    continue
                a = ch.pick("a", nss)
                used_old = True
                if op == "pos":
                    res = attempt(lambda: +a[0], op)
                    t = a[1]
                    desc = "+%sArgs%s" % (classes[a[1]]["name"], a[2])
                else:
                    t = ch.int("cls", 0, len(classes) - 1)
                    res = attempt(lambda: a[0].to_render_args(classes[t]["cls"]), op)
                    desc = "%sArgs%s.to_render_args(%s)" % (classes[a[1]]["name"], a[2],
                                                            classes[t]["name"])
                exp = model_ctor(t, None, [a])
                if isinstance(exp, str):
                    check(res == ("exc", exp), "incompatible_constituent_not_rejected_as_documented",
                          {"op": desc, "got": repr(res)}, op)
                else:
                    check(res[0] == "ok", "compatible_constituents_rejected",
                          {"op": desc, "got": repr(res)}, op)
                    add_ra(res[1], t, exp, desc)
            elif op == "eq_hash":
                a, b = ch.pick("a", ras), ch.pick("b", ras)
                twins = [r for r in ras if r[0] is not a[0] and r[1] == a[1] and r[2] == a[2]]
                if twins and ch.bool("twin", 0.6):
                    b = ch.pick("twin_of_a", twins)     # equal by the model, built another way
                used_old = True
                eq_model = a[1] == b[1] and a[2] == b[2]
                desc = "compare RenderArgs(%s %s) with RenderArgs(%s %s)" % (
                    classes[a[1]]["name"], a[2], classes[b[1]]["name"], b[2])
                check((a[0] == b[0]) == eq_model, "equality_differs_from_model",
                      {"op": desc, "got": a[0] == b[0]}, "eq")
                if eq_model and any(isinstance(v, list) for f in a[2].values() for v in f.values()):
                    # "hashable iff its namespaces are"
                    ctx.probe("set_with_unhashable_field_value")
                    check(attempt(lambda: hash(a[0]), op) == ("exc", "TypeError"),
                          "set_with_unhashable_value_hashed", {"op": desc}, "hash")
                elif eq_model:
                    ctx.probe("equal_sets_hash_equal")
                    check(hash(a[0]) == hash(b[0]), "equal_sets_hash_differently", {"op": desc},
                          "hash")
                if nss and len(nss) > 1:
                    x, y = ch.pick("x", nss), ch.pick("y", nss)
                    twins = [n for n in nss if n[0] is not x[0] and n[1] == x[1] and n[2] == x[2]]
                    if twins and ch.bool("twin", 0.6):
                        y = ch.pick("twin_of_x", twins)
                    eqm = x[1] == y[1] and x[2] == y[2]
                    check((x[0] == y[0]) == eqm, "namespace_equality_differs_from_model",
                          {"x": x[2], "y": y[2]}, "eq")
                    if eqm and any(isinstance(v, list) for v in x[2].values()):
                        check(attempt(lambda: hash(x[0]), op) == ("exc", "TypeError"),
                              "namespace_with_unhashable_value_hashed", {}, "hash")
                    elif eqm:
                        check(hash(x[0]) == hash(y[0]), "equal_namespaces_hash_differently", {},
                              "hash")
            elif op == "contains":
                if not nss:
                    continue
                a, r = ch.pick("a", nss), ch.pick("r", ras)
                used_old = True
                expc = a[1] in r[2] and r[2][a[1]] == a[2]
                desc = "%sArgs%s in RenderArgs(%s %s)" % (classes[a[1]]["name"], a[2],
                                                          classes[r[1]]["name"], r[2])
                check((a[0] in r[0]) == expc, "contains_differs_from_model",
                      {"op": desc, "got": a[0] in r[0]}, "contains")
            else:
                ctx.probe("negative_namespace_definition")
                which = ch.pick("neg", ("no_default", "reassociate", "multi_base", "unknown_field",
                                        "second_args"))
                tmp = type(Renderable)("Neg%d" % step, (Renderable,), {
                    "_get_render_size_": lambda self: None, "_render_": lambda self, a, b: None})
                meta = type(ArgsNamespace)
                if which == "no_default":
                    res = attempt(lambda: meta("N", (ArgsNamespace,),
                                               {"__annotations__": {"a": int}}, render_cls=tmp), op)
                    check(res == ("exc", "RenderArgsError"), "field_without_default_accepted",
                          {"got": repr(res)}, "negative")
                elif which == "reassociate":
                    base = meta("N", (ArgsNamespace,), {"__annotations__": {"a": int}, "a": 1},
                                render_cls=tmp)
                    tmp2 = type(Renderable)("Neg2_%d" % step, (Renderable,), {
                        "_get_render_size_": lambda self: None,
                        "_render_": lambda self, a, b: None})
                    res = attempt(lambda: meta("N2", (base,), {}, render_cls=tmp2), op)
                    check(res == ("exc", "RenderArgsDataError"), "reassociation_accepted",
                          {"got": repr(res)}, "negative")
                elif which == "multi_base":
                    b1 = meta("B1", (ArgsNamespace,), {})
                    b2 = meta("B2", (ArgsNamespace,), {})
                    res = attempt(lambda: meta("N", (b1, b2), {}), op)
                    check(res == ("exc", "RenderArgsDataError"), "multiple_bases_accepted",
                          {"got": repr(res)}, "negative")
                elif which == "second_args":
                    meta("N", (ArgsNamespace,), {"__annotations__": {"a": int}, "a": 1},
                         render_cls=tmp)
                    res = attempt(lambda: meta("N3", (ArgsNamespace,),
                                               {"__annotations__": {"b": int}, "b": 1},
                                               render_cls=tmp), op)
                    check(res == ("exc", "RenderArgsError"), "second_namespace_for_class_accepted",
                          {"got": repr(res)}, "negative")
                else:
                    if args_classes:
                        i = ch.pick("cls", args_classes)
                        if classes[i].get("custom_init"):
                            i = next((j for j in args_classes if not classes[j].get("custom_init")),
                                     None)
                    else:
                        i = None
                    if i is not None:
                        # an unknown field / a field given twice, with none, some or ALL of the
                        # fields given positionally
                        names_ = list(classes[i]["fields"])
                        npos = ch.pick("npos_neg", (0, 1, len(names_), len(names_)))
                        npos = min(npos, len(names_))
                        posv = [ch.int("val", 0, 4) for _ in range(npos)]
                        if ch.bool("duplicate", 0.4) and npos:
                            kwv = {names_[ch.int("dup", 0, npos - 1)]: 1}
                            want = ("exc", "TypeError")
                        else:
                            kwv = {unknown_name(i): 1}
                            want = ("exc", "UnknownArgsFieldError")
                        res = attempt(lambda: classes[i]["Args"](*posv, **kwv), op)
                        check(res == want, "unknown_field_accepted",
                              {"got": repr(res), "expected": want, "positional": posv,
                               "keywords": kwv, "fields": names_}, "negative")
                desc = "negative definition: %s" % which
            ctx.op(desc)
            key.append(desc)
            if used_old and constructions[0] >= 3:
                ctx.nontrivial = True
            # immutability of everything created so far (and of every class's default set)
            for kind, obj, snap in snaps:
                now = ra_snapshot(obj) if kind == "ra" else ns_snapshot(obj)
                check(now == snap, "existing_object_was_altered",
                      {"after": desc, "kind": kind, "before": repr(snap)[:300],
                       "now": repr(now)[:300]}, "immutability")
            for i, obj in defaults.items():
                check(RenderArgs(classes[i]["cls"]) is obj, "default_set_replaced",
                      {"after": desc, "class": classes[i]["name"]}, "immutability")
        ctx.key([(c["name"], c["parent"], c["fields"]) for c in classes], key)
        ctx.log("trace", key)
