"""C12 - terminal queries report what the terminal said, whatever the timing."""
from __future__ import annotations

import termios

from simkit.core import Violation, check
from simkit.kernel import NS
from simkit.models import ENV_PROGRAMS, FactsModel, gen_profile
from simkit.world import World

ID = "C12"
LEVEL = "exploration"
TECHNIQUE = ("deterministic simulation: byte-level simulated tty + terminal responder with a "
             "seeded reply schedule on a virtual clock; results compared with a profile-derived "
             "reference model")
LEVEL_TEXT = ("Seeded exploration of (terminal profile x reply schedule x operation order) worlds; "
              "in each world the real query code runs against a simulated tty whose peer answers "
              "per its profile with seeded delays, and every returned value, the leftover input "
              "queue, the elapsed virtual time and the terminal attributes are checked after "
              "every operation. A sixth of the worlds add a stalled process (the clock jumps at one "
              "of the library's clock reads): there only 'does not raise, terminal modes restored' "
              "is demanded. Sampling, not proof: evidence for the sampled worlds.")
LEVEL_NOTE = ("Trusted: the VTerm responder's reply formats, the SimTTY line discipline model "
              "(ICANON/ECHO/VMIN/VTIME, TCSAFLUSH), FactsModel (documented memoisation rules). "
              "Premise of the property is enforced by the generator (atomic FIFO replies, delay "
              "< timeout).")
TIERS = {
    "quick": {"runs": 4000, "max_ops": 10},
    "thorough": {"runs": 120000, "max_ops": 14, "wall_cap": 1500},
}
RULE = ("one world = seeded terminal profile (identity/version, subset of answered queries, "
        "colour reply widths 1-4 hex digits per component, ST/BEL, ioctl pixels or not, "
        "cell size, swap) x seeded reply schedule (per-reply delay < timeout on the virtual "
        "clock, FIFO) x seeded order of <= max_ops query operations; non-trivial = at least "
        "two replies arrived with distinct non-zero delays, or a strict non-empty subset of "
        "the queries is answered; distinct = hash of (profile, op sequence, delay buckets)")
PROBES = ["reply_in_last_10pct_of_window", "da1_split_from_reply_by_delay",
          "xtversion_unsupported_env_fallback", "cell_via_ioctl", "cell_via_16t",
          "cell_via_14t", "mute_terminal_timeout", "queries_disabled_default",
          "mixed_hex_widths", "zero_delay_replies_prequeued",
          "process_stalled_at_a_clock_read", "tcdrain_refused_by_the_platform",
          "asked_while_disabled_then_again_when_enabled"]
COMPONENTS = {
    "real": ["term_image.utils (query_terminal, read_tty, write_tty, get_cell_size, "
             "get_fg_bg_colors, get_terminal_name_version, lock_tty, cached)",
             "term_image._ctlseqs", "KittyImage/ITerm2Image/BlockImage.is_supported",
             "auto_image_class / AutoImage / from_file", "import-time tty discovery"],
    "stub": ["tty device + line discipline (SimTTY)", "termios/ioctl/select/os.read/os.write",
             "monotonic clock (virtual)", "terminal emulator + query responder (VTerm)",
             "process environment (TERM_PROGRAM*, COLORTERM, TERM)"],
}
ASSUMPTIONS = [
    "terminal replies are written atomically, in FIFO order, each with a delay shorter than "
    "the query timeout (the property's premise)",
    "VTerm responder formats replies as xterm/kitty/konsole/wezterm/iterm2 document them",
    "per-syscall virtual cost is small enough that reading all replies fits in the timeout",
]

STYLES = ("kitty", "iterm2", "block")


def _setup(ch, ctx, fault):
    profile = gen_profile(ch)
    rows = ch.skewed("rows", 1, 120)
    cols = ch.skewed("cols", 1, 300)
    cell = (ch.skewed("cw", 1, 40), ch.skewed("chh", 1, 40))
    w = World(ctx, ch, fault, rows=rows, cols=cols, profile=profile, cell_px=cell)
    w.tty.ioctl_pixels = ch.bool("ioctl_px", 0.5)
    w.tty.ioctl_fails = ch.bool("ioctl_fails", 0.1)
    envp = ch.pick("envp", ENV_PROGRAMS)
    if envp:
        w.tty.environ["TERM_PROGRAM"] = envp[0]
        w.tty.environ["TERM_PROGRAM_VERSION"] = envp[1]
    ct = ch.pick("colorterm", (None, "truecolor", "24bit", "yes"))
    if ct:
        w.tty.environ["COLORTERM"] = ct
    w.tty.environ["TERM"] = ch.pick("TERM", ("xterm-256color", "xterm", "xterm-kitty", "dumb"))
    return w, profile


def run(ch, ctx, fault=None):
    w, profile = _setup(ch, ctx, fault)
    k, tty, vt = w.k, w.tty, w.vt
    model = FactsModel(profile, tty.environ, vt, tty)
    timeout = [0.1]
    delay_mode = ch.pick("delaymode", ("zero", "uniform", "uniform", "late", "bunch"))
    cost = ch.pick("cost", (0, 0, 1000, 5000))
    for kind in ("tty.select", "tty.read"):
        if cost:
            k.cost_ns[kind] = cost
    delays_seen = []
    # a sixth of the worlds run on a machine that stalls (scheduler pause, GC, swapped-out
    # process) for longer than the time left at one of the library's clock reads.  What the
    # terminal said can then not be demanded any more - only that the library neither raises
    # nor leaves the terminal modes changed ("whatever the timing").
    stall_world = ch.bool("stall_world", 0.16)
    stalled = [False]

    def delay_fn(kind):
        T = int(timeout[0] * NS)
        hi = int(T * 0.8)
        if delay_mode == "zero":
            d = 0
        elif delay_mode == "late":
            d = ch.int("delay", int(T * 0.72), hi)
        elif delay_mode == "bunch":
            d = ch.pick("delayb", (0, 0, hi // 2))
        else:
            d = ch.int("delay", 0, hi)
        delays_seen.append(d)
        if d >= T * 0.7:
            ctx.probe("reply_in_last_10pct_of_window")
        if kind == "da1" and d > 0:
            ctx.probe("da1_split_from_reply_by_delay")
        if d == 0:
            ctx.probe("zero_delay_replies_prequeued")
        return d

    tty.delay_fn = delay_fn
    if len(set(profile.hex_widths)) > 1:
        ctx.probe("mixed_hex_widths")
    ctx.key("profile", profile.describe(), tty.ioctl_pixels, tty.ioctl_fails,
            sorted(tty.environ.items()), (vt.rows, vt.cols), vt.cell_px)
    ctx.op("profile %s" % (profile.describe(),))
    ctx.op("terminal %dx%d cell=%s ioctl_px=%s ioctl_fails=%s env=%s delay=%s cost=%d"
           % (vt.cols, vt.rows, vt.cell_px, tty.ioctl_pixels, tty.ioctl_fails,
              {k_: v for k_, v in tty.environ.items() if k_.startswith(("TERM", "COLOR"))},
              delay_mode, cost))
    answered = profile.answers & {"xtversion", "osc10", "osc11", "14t", "16t", "da1"}
    if 0 < len(answered) < 6:
        ctx.nontrivial = True

    if ch.bool("tcdrain_refused", 0.15):
        # a platform on which tcdrain() always fails ("Permission denied", Termux): the
        # request has been written all the same and the terminal answers
        tty.tcdrain_refused = True
        ctx.probe("tcdrain_refused_by_the_platform")
    with w:
        ti, utils = w.ti, w.utils
        from term_image import image as ti_image
        cls_of = {"kitty": ti_image.KittyImage, "iterm2": ti_image.ITerm2Image,
                  "block": ti_image.BlockImage}
        style_of = {v: k_ for k_, v in cls_of.items()}
        entry_copy = tty.mark_entry()
        n_ops = ch.int("n_ops", 1, ctx.cfg["max_ops"])
        queue = []
        i = -1
        while True:
            i += 1
            if not queue and i >= n_ops:
                break
            op = queue.pop(0) if queue else ch.weighted("op", [
                (4, "colors"), (4, "namever"), (4, "cell"), (3, "sup_kitty"),
                (3, "sup_iterm2"), (1, "sup_block"), (3, "auto"), (1, "autoimage"),
                (1, "disable"), (1, "enable"), (1, "timeout"), (1, "swap_on"),
                (1, "swap_off"), (2, "off_on"),
            ])
            if op == "off_on":
                # queries are off for a while: what is asked in the meantime gets the
                # documented fallback, and the same question after enable_queries() gets
                # the terminal's answer again
                g = ch.pick("off_on_getter", ("colors", "namever", "cell", "sup_kitty",
                                              "sup_iterm2", "auto"))
                queue = ["disable", g, "enable", g]
                ctx.probe("asked_while_disabled_then_again_when_enabled")
                continue
            t_start = k.now
            writes0 = k.counts.get("tty.write", 0)
            sched0 = tty.replies_scheduled
            expect = None
            if stall_world and ch.bool("stall_now", 0.5):
                k.fault = {"kind": "clock", "k": k.counts.get("clock", 0) + ch.int("stall_at", 1, 8),
                           "action": "clockjump",
                           "ns": ch.int("stall_ns", int(0.01 * NS), int(0.6 * NS))}
                k.fault_done = False
            try:
                if op == "colors":
                    hexa = ch.bool("hex", 0.3)
                    got = utils.get_fg_bg_colors(hex=hexa)
                    fg, bg = model.get_colors(hexa)
                    if hexa:
                        fg = fg and "#%02x%02x%02x" % fg
                        bg = bg and "#%02x%02x%02x" % bg
                    expect = (fg, bg)
                    desc = "get_fg_bg_colors(hex=%s)" % hexa
                elif op == "namever":
                    got = utils.get_terminal_name_version()
                    expect = model.get_namever()
                    desc = "get_terminal_name_version()"
                    if "xtversion" not in profile.answers:
                        ctx.probe("xtversion_unsupported_env_fallback")
                elif op == "cell":
                    was_cached = model.cell is not None
                    got = utils.get_cell_size()
                    got = got and tuple(got)
                    expect = model.get_cell()
                    desc = "get_cell_size()"
                    if not was_cached and expect is not None:
                        if tty.ioctl_pixels and not tty.ioctl_fails:
                            ctx.probe("cell_via_ioctl")
                        elif "16t" in profile.answers:
                            ctx.probe("cell_via_16t")
                        else:
                            ctx.probe("cell_via_14t")
                elif op.startswith("sup_"):
                    style = op[4:]
                    got = cls_of[style].is_supported()
                    expect = model.get_support(style)
                    desc = "%sImage.is_supported()" % style
                elif op == "auto":
                    got = style_of.get(ti_image.auto_image_class())
                    expect = model.auto_style()
                    desc = "auto_image_class()"
                elif op == "autoimage":
                    from PIL import Image
                    img = Image.new("RGB", (3, 3))
                    got = style_of.get(type(ti_image.AutoImage(img)))
                    expect = model.auto_style()
                    desc = "AutoImage(img)"
                elif op == "disable":
                    ti.disable_queries()
                    model.disable_queries()
                    got = expect = None
                    desc = "disable_queries()"
                    ctx.probe("queries_disabled_default")
                elif op == "enable":
                    ti.enable_queries()
                    model.enable_queries()
                    got = expect = None
                    desc = "enable_queries()"
                elif op == "timeout":
                    t = ch.pick("tmo", (0.05, 0.1, 0.5, 0.02))
                    ti.set_query_timeout(t)
                    timeout[0] = t
                    got = expect = None
                    desc = "set_query_timeout(%s)" % t
                elif op == "swap_on":
                    ti.enable_win_size_swap()
                    model.set_swap(True)
                    got = expect = None
                    desc = "enable_win_size_swap()"
                else:
                    ti.disable_win_size_swap()
                    model.set_swap(False)
                    got = expect = None
                    desc = "disable_win_size_swap()"
            except Violation:
                raise
            except Exception as e:
                ctx.op("%s raised %r" % (op, e))
                raise Violation("query_op_raised", {"op": op, "exc": repr(e),
                                                    "profile": profile.describe()}, op)
            if k.fault is not None and k.fault.get("action") == "clockjump":
                if k.fault_done:
                    stalled[0] = True
                    ctx.probe("process_stalled_at_a_clock_read")
                k.fault = None
            elapsed = k.now - t_start
            nq = k.counts.get("tty.write", 0) - writes0
            ctx.op("%s -> %r   [%.4fs virtual, %d queries]" % (desc, got, elapsed / NS, nq))
            ctx.log("op", op, repr(got), elapsed)
            ctx.key(op, repr(expect), [d * 10 // max(1, int(timeout[0] * NS)) for d in delays_seen[-4:]])
            if nq and tty.replies_scheduled == sched0:
                ctx.probe("mute_terminal_timeout")
            if stalled[0]:
                # after a stall the premise "each reply arrives before the timeout" is gone
                # (and with it what the memoized getters hold): only the terminal modes count
                if tty.last_reply_at > k.now:
                    k.advance(tty.last_reply_at - k.now)
                tty.inq.clear()
                check(tty.attrs == entry_copy, "terminal_attributes_not_restored",
                      {"op": desc, "after": "stall"}, op)
                continue
            check(got == expect, "reported_value_differs_from_terminal",
                  {"op": desc, "got": repr(got), "expected": repr(expect),
                   "profile": profile.describe(), "cell_px": vt.cell_px,
                   "size": (vt.cols, vt.rows), "queries": model.queries, "swap": model.swap},
                  op)
            # bounded waiting: every query phase ends within the timeout
            slack = int(0.002 * NS) + 400 * cost
            check(elapsed <= nq * int(timeout[0] * NS) + slack, "fallback_later_than_timeout",
                  {"op": desc, "elapsed_s": elapsed / NS, "queries": nq,
                   "timeout": timeout[0]}, op)
            # no reply bytes remain unread (deliver whatever is still in flight first)
            if tty.last_reply_at > k.now:
                k.advance(tty.last_reply_at - k.now)
            check(not tty.inq, "reply_bytes_left_unread",
                  {"op": desc, "left": bytes(tty.inq), "profile": profile.describe()}, op)
            check(tty.attrs == entry_copy, "terminal_attributes_not_restored",
                  {"op": desc}, op)
            check(tty.echoed == 0, "reply_echoed_to_screen", {"op": desc}, op)
        nz = sorted(set(d for d in delays_seen if d))
        if len(nz) >= 2:
            ctx.nontrivial = True
