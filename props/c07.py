"""C07 - an interrupted draw() still restores the terminal and the image."""
from __future__ import annotations

import re

from props.c06_old import OldApiScenario
from props.c13 import gen_attrs
from simkit import drawworld as dw
from simkit import simrenderable
from simkit.core import Violation, check
from simkit.vterm import marker
from simkit.world import World

ID = "C07"
LEVEL = "fault_enumeration"
TECHNIQUE = ("deterministic simulation with fault enumeration: one fault at the k-th "
             "write/flush/sleep/render call of draw() for every k (KeyboardInterrupt before/after, "
             "ordinary exception, partial write cut at byte granularity with the remainder lost or "
             "retained); terminal-side post-state oracle")
LEVEL_TEXT = ("For each sampled draw scenario (both APIs, still and animated, every style the "
              "terminal profile supports) the fault-free run records every stream/sleep/render "
              "call issued before draw()'s own clean-up; the scenario is then re-run once per "
              "(call, action): KeyboardInterrupt before and after the call's effect, the ordinary "
              "exception that call can raise, and - for writes - delivery of a prefix cut at a set "
              "of byte positions (every byte in the thorough tier for small writes) with the "
              "remainder lost or retained by the stream. When draw() returns or raises, and again "
              "after a retained buffer is flushed, the terminal model must show a visible cursor, "
              "reset attributes, no open control string / pending chunked transfer (a probe glyph "
              "must land on the grid), termios as on entry, render data finalized exactly once, "
              "size and current frame unchanged, and the documented exception contract. "
              "An interrupted flush delivers a prefix of what is pending and a write may stop inside data buffered by earlier writes; stdout may not be a tty (then only the state after the final flush is judged) and the terminal starts from seeded termios attributes. Exhaustive over fault positions per scenario; scenarios are sampled.")
LEVEL_NOTE = ("Trusted: VTerm's parser (C0 inside CSI, ESC aborts a sequence, ST/BEL termination, "
              "kitty chunking), SimStdout's partial-write model, the clean-up boundary rule "
              "(first write of exactly LF / CSI n B / SGR-reset / show-cursor in the fault-free "
              "run). Single transient fault; cursor position after an interrupt is not asserted.")
TIERS = {
    "quick": {"runs": 320, "dense": False},
    "thorough": {"runs": 3000, "dense": True, "wall_cap": 1700},
}
EXHAUSTIVE_INNER = True
RULE = ("scenario = draw world as in C06 (stdout is a tty, smaller sizes); faults = every "
        "(kind in {out.write, out.flush, sleep, render}, k) issued before clean-up in the "
        "fault-free run x {KeyboardInterrupt before, KeyboardInterrupt after, ordinary exception} "
        "plus partial delivery of each write at the cut-point set x {remainder lost, retained}; "
        "non-trivial = the fault fired while a frame or an escape sequence was in flight (cut "
        "inside the data, or an interrupt between a frame's write and its flush/sleep); "
        "distinct = hash of (scenario, fault)")
PROBES = ["kitty_chunked_transfer", "cut_inside_apc_payload", "cut_inside_csi", "cut_inside_utf8_glyph", "cut_inside_osc",
          "interrupt_during_sleep", "interrupt_in_frame_2_or_later", "interrupt_in_render",
          "retained_remainder_delivered_later", "old_api", "new_api", "still_image_propagates",
          "interrupted_flush_delivers_prefix", "write_cut_inside_earlier_buffered_data",
          "echo_already_off_on_entry", "stdout_not_a_tty",
          "animation_ends_silently", "stream_died_with_the_failure"]
COMPONENTS = {
    "real": ["Renderable.draw/_animate_/_init_render_/_handle_interrupted_draw_ call sites",
             "RenderIterator", "BaseImage.draw/_display_animated/_renderer",
             "KittyImage/ITerm2Image._handle_interrupted_draw", "ImageIterator",
             "style _render_image (PIL)"],
    "stub": ["stdout stream (SimStdout incl. partial writes)", "tty + termios",
             "clocks/sleep (virtual)", "terminal emulator (VTerm)"],
}
ASSUMPTIONS = [
    "signals are delivered at seam boundaries; an interrupted write has delivered a prefix",
    "one transient fault per run, never inside draw()'s own clean-up",
    "a stream that retains the undelivered remainder delivers it ahead of the next write/flush",
]

CLEANUP = re.compile(r"^(\n|\x1b\[\d+B|\x1b\[\?25h|\x1b\[m)$")
CLEANUP_NEW = re.compile(r"^(\n|\x1b\[\d+B|\x1b\[\?25h|)$")
ESC_CLASSES = [
    ("apc", re.compile(rb"\x1b_G[^\x1b]*\x1b\\")),
    ("osc", re.compile(rb"\x1b\][^\x1b\x07]*(?:\x1b\\|\x07)")),
    ("sgr", re.compile(rb"\x1b\[[0-9;:]*m")),
    ("csi", re.compile(rb"\x1b\[[0-9;?]*[A-HJKSTXfhl]")),
    ("utf8", re.compile(rb"[\xc2-\xf4][\x80-\xbf]+")),
]


def cut_points(data, dense):
    n = len(data)
    if n <= 1:
        return [0]
    if dense and n <= 2048:
        return list(range(0, n))
    pts = {0, 1, n - 1, n // 2}
    for name, rx in ESC_CLASSES:
        seen = 0
        for m in rx.finditer(data):
            a, b = m.span()
            pts.update({a + 1, (a + b) // 2, b - 1})
            if b - a > 3:
                pts.add(a + 2)
            seen += 1
            if seen >= (2 if name != "apc" else 3):
                break
        # last occurrence too (different surrounding state)
        last = None
        for last in rx.finditer(data):
            pass
        if last is not None:
            pts.update({last.start() + 1, last.end() - 1})
    return sorted(p for p in pts if 0 <= p < n)


def classify_cut(data, cut):
    for name, rx in ESC_CLASSES:
        for m in rx.finditer(data):
            if m.start() < cut < m.end():
                if name == "apc":
                    semi = data.find(b";", m.start(), m.end())
                    return "cut_inside_apc_payload" if semi != -1 and cut > semi else "cut_inside_csi"
                return {"osc": "cut_inside_osc", "sgr": "cut_inside_csi", "csi": "cut_inside_csi",
                        "utf8": "cut_inside_utf8_glyph"}[name]
            if m.start() >= cut:
                break
    return None


def run(ch, ctx, fault=None):
    api = ch.weighted("api", [(5, "new"), (5, "old")])
    profile = dw.gen_draw_profile(ch)
    rows = ch.skewed("rows", 3, 16)
    cols = ch.skewed("cols", 4, 40)
    buffered = ch.bool("buffered", 0.5)
    # stdout is usually the terminal itself; when it is not (a pipe or relay in front of one)
    # no cursor / termios handling takes place but attributes and control strings still matter
    isatty = ch.bool("isatty", 0.85)
    retain = bool(fault and fault.get("retain"))
    w = World(ctx, ch, fault, rows=rows, cols=cols, profile=profile,
              cell_px=(ch.int("cw", 2, 12), ch.int("chh", 4, 24)), stdout_tty=isatty,
              buffered=buffered, retain=retain, reuse=True)
    k, tty, vt, out = w.k, w.tty, w.vt, w.out
    out.keep_full = fault is None
    hooks = simrenderable.Hooks(k)
    ctx.probe(api + "_api")
    r0 = ch.skewed("r0", 0, rows - 1)
    if api == "new":
        sc = dw.NewApiScenario(ch, ctx, w, hooks, small=True)
    else:
        sc = OldApiScenario(ch, ctx, w, small=True)
    info = {"api": api, "scenario": None, "terminal": (cols, rows), "r0": r0,
            "buffered": buffered, "isatty": isatty, "profile": "%s %s" % (profile.name, profile.version),
            "fault": fault}
    fired = {}

    def on_fire(f):
        fired["f"] = f
        fired["vt_ground"] = vt.in_ground()
        fired["sgr_default"] = vt.sgr_default()

    k.on_fire = on_fire
    with w:
        try:
            sc.build()
        except Exception as e:
            raise Violation("construction_failed", dict(info, exc=repr(e)), api + ".build")
        try:
            info["scenario"] = sc.describe()
            ctx.op("terminal %dx%d cursor_row=%d buffered=%s profile=%s"
                   % (cols, rows, r0, buffered, info["profile"]))
            ctx.op(sc.describe())
            if fault:
                ctx.op("fault: %r" % (fault,))
            ctx.key(info)
            if api == "old":
                sc.resolve()
                animation = sc.animation
                size_before = sc.image.size
                tell_before = sc.image.tell()
                orig = sc.image._render_image

                def render_seam(*a, **kw):
                    k.seam("render")
                    try:
                        return orig(*a, **kw)
                    finally:
                        k.seam_after("render")
                sc.image._render_image = render_seam
            else:
                animation = sc.animation
                tell_before = sc.renderable.tell()
            if sc.expect_error:
                return  # rejected before anything is drawn: nothing to interrupt (C06)
            vt.grid = [[marker(r, c) for c in range(cols)] for r in range(rows)]
            vt.placements = []
            vt.errors = []
            vt.r, vt.c = r0, 0
            # the terminal may be in any mode when draw() is called (a key-reading application
            # has echo off already, ...)
            tty.attrs = gen_attrs(ch)
            if not tty.echo():
                ctx.probe("echo_already_off_on_entry")
            if not isatty:
                ctx.probe("stdout_not_a_tty")
            entry = tty.mark_entry()
            k.counts.clear()
            k.seq_log = []
            k.fault_done = False
            exc = None
            try:
                sc.call()
            except Violation:
                raise
            except BaseException as e:  # noqa: B902
                exc = e
            seq = k.seq_log
            k.seq_log = None
            ctx.op("-> %s" % ("raised %r" % (exc,) if exc is not None else "returned"))
            ctx.log("result", type(exc).__name__ if exc is not None else None)
            f = fired.get("f")
            if vt.chunked_transfers:
                ctx.probe("kitty_chunked_transfer")
            if fault is None:
                check(exc is None, "draw_raised_without_fault", dict(info, exc=repr(exc)),
                      api + ".nofault")
                # fault sites: every call before the first clean-up write
                sites = []
                wi = 0
                fi = 0
                first_render_pos = None
                for pos, (kind, kk) in enumerate(seq):
                    if kind == "out.write":
                        text = out.write_log[wi]
                        pend = out.pend_log[wi] if wi < len(out.pend_log) else b""
                        wi += 1
                        if (CLEANUP_NEW if api == "new" else CLEANUP).match(text):
                            break
                        sites.append((kind, kk, text, pend))
                    elif kind == "out.flush":
                        # what is still buffered when the flush starts: an interrupted flush
                        # delivers a prefix of it
                        pending = out.flush_log[fi] if fi < len(out.flush_log) else b""
                        fi += 1
                        sites.append((kind, kk, pending or None, b""))
                    elif kind in ("sleep", "render"):
                        sites.append((kind, kk, None, b""))
                        if kind == "render" and first_render_pos is None:
                            first_render_pos = len(sites) - 1
                ctx.extra["sites"] = sites
                ctx.extra["first_render"] = first_render_pos
                ctx.extra["animation"] = animation
                return
            if f is None:
                return  # the planned call does not exist in this (shrunk) scenario
            # ---------------------------------------------------------------- oracle
            where = "%s.%s" % (api, "animation" if animation else "still")
            inf = dict(info, raised=repr(exc), animation=animation)
            if f.get("action") == "partial":
                data_cls = f.get("cls")
                if data_cls:
                    ctx.probe(data_cls)
                    ctx.nontrivial = True
                elif 0 < f.get("cut", 0):
                    ctx.nontrivial = True
            if f["kind"] == "sleep":
                ctx.probe("interrupt_during_sleep")
                ctx.nontrivial = True
            if f["kind"] == "render":
                ctx.probe("interrupt_in_render")
            if f.get("frame", 0) >= 2:
                ctx.probe("interrupt_in_frame_2_or_later")
            if f["kind"] == "out.flush" and f.get("when") == "before":
                ctx.nontrivial = True
                if f.get("action") == "partial":
                    ctx.probe("interrupted_flush_delivers_prefix")
            if f.get("in_pending"):
                ctx.probe("write_cut_inside_earlier_buffered_data")

            def post_state(phase):
                dw.terminal_restored(vt, tty, entry, True, dict(inf, phase=phase), where,
                                     after=phase, strings_only=True)

            stream_dead = bool(f.get("closes"))
            if stream_dead:
                # the stream shut itself down with the failure: nothing more can be written,
                # so nothing about the screen is demanded - everything else still is
                ctx.probe("stream_died_with_the_failure")
                ctx.nontrivial = True
                check(tty.attrs == entry, "terminal_attributes_not_restored",
                      lambda: dict(inf, lflag_entry=entry[3], lflag_now=tty.attrs[3]), where)
            if isatty and not stream_dead:
                post_state("immediately")
            # (a stdout that is not a tty is fully buffered: what the library wrote last reaches
            # the terminal when the stream's owner flushes it, at the latest at exit - only that
            # state can be judged)
            out.drain()
            if not stream_dead:
                post_state("after_later_flush")
                # the terminal is not swallowing output: a probe glyph lands on the grid
                pr, pc = vt.r, vt.c
                vt.feed(b"ZZZ")
                landed = any(cell[0] == "Z" for cell in vt.grid[pr]) or \
                    any(cell[0] == "Z" for cell in vt.grid[min(rows - 1, pr + 1)])
                check(landed, "terminal_swallows_subsequent_output", inf, where)
            if api == "new":
                bad = {t: c for t, c in hooks.final_count.items() if c != 1}
                check(not bad, "render_data_not_finalized_exactly_once",
                      dict(inf, counts=hooks.final_count), where)
                check(sc.renderable.tell() == tell_before, "current_frame_changed",
                      dict(inf, tell=sc.renderable.tell(), before=tell_before), where)
            else:
                now = sc.image.size
                check(now == size_before and type(now) is type(size_before),
                      "image_size_setting_changed",
                      dict(inf, before=repr(size_before), now=repr(now)), where)
                check(sc.image.tell() == tell_before, "current_frame_changed",
                      dict(inf, tell=sc.image.tell(), before=tell_before), where)
            injected = f.get("exc", "KeyboardInterrupt")
            if stream_dead:
                check(exc is not None, "failure_of_a_dead_stream_swallowed", inf, where)
            elif not animation:
                ctx.probe("still_image_propagates")
                check(exc is not None and type(exc).__name__ in (
                    injected, "InterruptedError" if injected == "EINTR" else injected,
                    "RenderError"),
                    "still_image_swallowed_the_interrupt", dict(inf, injected=injected), where)
            elif injected == "KeyboardInterrupt" and f.get("at_or_after_first_render"):
                ctx.probe("animation_ends_silently")
                check(exc is None, "animation_did_not_end_silently_on_ctrl_c", inf, where)
        finally:
            if api == "old":
                sc.cleanup()


def faults(ctx, ch):
    out = []
    sites = ctx.extra.get("sites") or []
    fr = ctx.extra.get("first_render")
    dense = ctx.cfg.get("dense")
    frame = 0
    for idx, (kind, kk, text, pend) in enumerate(sites):
        if kind == "render":
            frame += 1
        after_fr = fr is not None and idx >= fr
        base = {"kind": kind, "k": kk, "at_or_after_first_render": after_fr, "frame": frame}
        out.append(dict(base, when="before", exc="KeyboardInterrupt"))
        out.append(dict(base, when="after", exc="KeyboardInterrupt"))
        err = {"out.write": "OSError", "out.flush": "OSError", "render": "RuntimeError"}.get(kind)
        if err:
            out.append(dict(base, when="before", exc=err))
        if err and kind != "render" and kk % 2:
            # ... and the stream shuts itself down with the failure (EPIPE: the terminal went
            # away): every later write of the clean-up fails as well
            out.append(dict(base, when="before", exc=err, closes=True))
        if kind == "out.flush" and text:
            for cut in cut_points(text, dense):
                cls = classify_cut(text, cut)
                for retain in (False, True):
                    out.append(dict(base, when="before", action="partial", cut=cut,
                                    exc="KeyboardInterrupt", retain=retain, cls=cls))
                out.append(dict(base, when="before", action="partial", cut=cut, exc="OSError",
                                retain=False, cls=cls))
        if kind == "out.write" and text:
            data = text.encode("utf-8")
            for cut in cut_points(data, dense):
                cls = classify_cut(data, cut)
                for retain in (False, True):
                    out.append(dict(base, when="before", action="partial", cut=cut,
                                    exc="KeyboardInterrupt", retain=retain, cls=cls))
                # a write that fails with an ordinary error (EIO, EPIPE, ENOSPC) has usually
                # delivered a prefix too
                out.append(dict(base, when="before", action="partial", cut=cut, exc="OSError",
                                retain=False, cls=cls))
            if pend:
                # this write pushes out data buffered by earlier writes (line-buffered tty: a
                # write containing CR/LF flushes everything): the device may stop inside those
                for cut in cut_points(pend, dense):
                    cls = classify_cut(pend, cut)
                    for retain in (False, True):
                        out.append(dict(base, when="before", action="partial", cut=0,
                                        cut_total=cut, exc="KeyboardInterrupt", retain=retain,
                                        cls=cls, in_pending=True))
                    out.append(dict(base, when="before", action="partial", cut=0, cut_total=cut,
                                    exc="OSError", retain=False, cls=cls, in_pending=True))
    return out
