"""C15 - cached terminal facts never outlive the condition they were computed under."""
from __future__ import annotations

from simkit import procs
from simkit.core import Violation, check
from simkit.models import FactsModel, gen_profile
from simkit.world import World, src_dir

ID = "C15"
LEVEL = "exploration"
TECHNIQUE = ("deterministic simulation: seeded histories of resizes / toggles / getters on the "
             "simulated tty compared with a fresh-computation model, plus baton-scheduled "
             "concurrent first calls of memoized functions")
LEVEL_TEXT = ("History worlds: <= 30 (thorough tier: 60) seeded operations from {resize in cells and/or pixels, "
              "pixel-only change, enable/disable_win_size_swap, enable/disable_queries, "
              "set_cell_ratio(FIXED | DYNAMIC | float), get_cell_size, get_cell_ratio, "
              "get_fg_bg_colors, get_terminal_name_version, calls of harness functions decorated "
              "with the library's own cached / terminal_size_cached}. After every getter the "
              "value must equal what a fresh computation gives for the current terminal size and "
              "settings (pixel-only changes may but need not be noticed, as documented), and "
              "memoized bodies run at most once per argument tuple until invalidated. "
              "Concurrency worlds: 2-4 tasks make the first call of the same memoized function "
              "under the seeded scheduler (line-level pre-emption on half the runs): the body "
              "runs at most once per argument tuple and every caller gets the same value; in a "
              "third of the rounds one task calls enable_queries() (after a disabled period) "
              "while the others make first calls, and after quiescence every getter must equal a "
              "fresh computation. "
              "Sampling, not proof.")
LEVEL_NOTE = ("Trusted: FactsModel (documented caching rules), SimTTY's ioctl/XTWINOPS answers, "
              "the kernel's RLock model. AutoCellRatio.is_supported is modelled as sticky once "
              "determined, as its docstring says. Invalidation of the harness memo tables "
              "racing with a call is outside the statement (it speaks of concurrent first calls) "
              "and is not generated; enable_queries() racing with first calls is (only the state "
              "after both have finished is judged).")
TIERS = {
    "quick": {"runs": 14000, "max_ops": 30},
    "thorough": {"runs": 400000, "max_ops": 60, "wall_cap": 1500},
}
RULE = ("history world = seeded terminal profile + <= max_ops operations; concurrency world = "
        "2-4 tasks x seeded schedule making first calls; non-trivial = a get, an invalidating "
        "event and another get at an unchanged terminal size occur in that order, or >= 2 tasks "
        "were inside a first call; distinct = hash of the operation list / schedule")
PROBES = ["resize_during_cell_size_query", "resizes_while_terminal_size_cached_body_runs", "terminal_size_cached_body_failed", "toggle_then_get_at_unchanged_size", "resize_then_get", "pixel_only_change",
          "reenable_queries_discards_disabled_results", "dynamic_ratio_follows_resize",
          "fixed_ratio_survives_resize", "memo_body_once", "terminal_size_cached_recomputed",
          "concurrent_first_calls", "task_waited_on_memo_lock", "auto_ratio_unsupported",
          "resize_back_to_earlier_size", "enable_queries_races_with_first_call",
          "swap_toggle_races_with_cell_size_calls", "memoized_falsy_result",
          "process_start_races_with_cell_size_calls", "staged_lock_hand_over_schedule",
          "cell_size_query_interrupted", "many_distinct_memo_arguments"]
COMPONENTS = {
    "real": ["term_image.utils.get_cell_size / cached / terminal_size_cached / "
             "get_fg_bg_colors / get_terminal_name_version", "term_image.enable/disable_queries, "
             "enable/disable_win_size_swap, set_cell_ratio, get_cell_ratio"],
    "stub": ["tty (ioctl winsize, XTWINOPS replies), termios, select, clock", "thread "
             "scheduling + RLock (kernel)"],
}
ASSUMPTIONS = ["terminal replies arrive within the query timeout",
               "caching per terminal size in cells is documented; pixel-only changes are "
               "accepted as either noticed or not"]


def run(ch, ctx, fault=None):
    if ch.bool("concurrent", 0.25):
        if ch.bool("start_race_world", 0.5):
            return run_start_race(ch, ctx, fault)
        return run_concurrent(ch, ctx, fault)
    return run_history(ch, ctx, fault)


def run_start_race(ch, ctx, fault):
    """The first Process.start() of a program replaces the cell-size lock and cache by
    process-shared ones while other threads compute the cell size or toggle the win-size swap:
    after all of them have finished, the cell size equals a fresh computation."""
    ctx.probe("process_start_races_with_cell_size_calls")
    profile = gen_profile(ch, always_da1=True)
    w = World(ctx, ch, fault, rows=24, cols=80, profile=profile, cell_px=(8, 16), reuse=True)
    k, tty, vt = w.k, w.tty, w.vt
    k.log_seams = False
    k.policy = ch.pick("policy", ("random", "sticky", "pct"))
    if k.policy == "pct":
        k.pct_points = tuple(sorted(ch.int("pctp", 1, 300) for _ in range(ch.int("pctd", 1, 4))))
    tty.delay_fn = lambda kind: ch.int("delay", 0, 2_000_000)
    tty.ioctl_pixels = ch.bool("ioctl_px", 0.7)
    model = FactsModel(profile, tty.environ, vt, tty)
    with w:
        utils, ti = w.utils, w.ti
        pw = procs.ProcWorld(w)
        if ch.bool("warm", 0.5):
            utils.get_cell_size()
        n_get = ch.int("n_get", 1, 3)
        toggles = ch.int("toggles", 1, 2)
        got = {}

        def getter(j):
            got[j] = utils.get_cell_size()

        def starter():
            pw.start_process(lambda pw_, child: None, ch.pick("method", ("fork", "spawn")),
                             "child")

        def toggler():
            for _ in range(toggles):
                (ti.disable_win_size_swap if utils._swap_win_size
                 else ti.enable_win_size_swap)()
                k.yield_point("between-toggles")

        k.tasks = []
        k.aborting = False
        k.tracefunc = procs.make_tracer(k, src_dir())
        bodies = [(lambda j=j: getter(j)) for j in range(n_get)] + [starter, toggler]
        order = list(range(len(bodies)))
        tasks = []
        for i in order:
            t = k.spawn(bodies[i], "t%d" % i, 0)
            pw.current_proc[t.tid] = pw.p0
            tasks.append(t)
        if ch.bool("staged", 0.6):
            # a seeded but *staged* schedule: the starter runs until it holds the old cell-size
            # lock, then the getters run until they are parked on it, then long uninterrupted
            # stretches with rare switches (the hand-over window is a few lines wide; uniform
            # switching at every line almost never keeps a thread inside it)
            old_lock = utils._cell_size_lock
            t_start = tasks[n_get]
            getters_ = tasks[:n_get]
            sw = ch.pick("switch_p", (0.04, 0.08, 0.15))

            t_toggle = tasks[n_get + 1]
            hold_toggler = ch.int("toggler_after", 0, 90)   # getter steps after the hand-over
            steps_after = [0]

            def pick(cands, last):
                if old_lock.owner != t_start.tid and utils._cell_size_lock is old_lock \
                        and t_start in cands:
                    return t_start
                if old_lock.owner == t_start.tid:
                    g = [t for t in cands if t in getters_]
                    if g:
                        return g[0]
                if utils._cell_size_lock is not old_lock:
                    # after the hand-over: the toggler is held back until a getter has run a
                    # seeded number of steps (lines) inside its computation, then runs through
                    if last in getters_:
                        steps_after[0] += 1
                    others = [t for t in cands if t is not t_toggle]
                    if steps_after[0] < hold_toggler and others:
                        g = [t for t in others if t in getters_]
                        if last in others and not ch.bool("sw", sw):
                            return last
                        return ch.pick("t", g or others)
                    if t_toggle in cands and t_toggle.state != "done":
                        return t_toggle
                if last in cands and not ch.bool("sw", sw):
                    return last
                return ch.pick("t", cands)

            k.policy = "custom"
            k.custom_pick = pick
            ctx.probe("staged_lock_hand_over_schedule")
        try:
            k.run_tasks()
        finally:
            k.tracefunc = None
        for t in k.tasks:
            if t.exc is not None:
                if isinstance(t.exc, Violation):
                    raise Violation(t.exc.invariant, t.exc.detail, t.exc.site)
                raise Violation("task_raised", {"task": t.name, "exc": repr(t.exc)}, "task")
        model.set_swap(bool(utils._swap_win_size))
        if tty.last_reply_at > k.now:
            k.advance(tty.last_reply_at - k.now)
        tty.inq.clear()
        g = utils.get_cell_size()
        g = g and tuple(g)
        ctx.op("%d getters + Process.start() + %d swap toggle(s): %r; afterwards get_cell_size() "
               "-> %r (%d switches)" % (n_get, toggles, [repr(got.get(j)) for j in range(n_get)],
                                        g, k.switches))
        check(g == model.fresh_cell(), "cell_size_computed_under_old_swap_setting_survives",
              {"got": g, "fresh": model.fresh_cell(), "swap": model.swap,
               "during": [repr(got.get(j)) for j in range(n_get)]}, "concurrent.start")
        if k.contended:
            ctx.nontrivial = True
        ctx.key("start_race", n_get, toggles, k.policy, k.sched_trace[:80])
        ctx.log("sched", k.sched_trace[:1500])


def run_history(ch, ctx, fault):
    profile = gen_profile(ch, always_da1=True)
    rows, cols = ch.int("rows", 1, 60), ch.int("cols", 1, 200)
    w = World(ctx, ch, fault, rows=rows, cols=cols, profile=profile,
              cell_px=(ch.int("cw", 1, 30), ch.int("chh", 1, 40)), reuse=True)
    k, tty, vt = w.k, w.tty, w.vt
    k.log_seams = False
    tty.ioctl_pixels = ch.bool("ioctl_px", 0.5)
    tty.ioctl_fails = ch.bool("ioctl_fails", 0.1)
    tty.delay_fn = lambda kind: ch.int("delay", 0, 30_000_000)
    model = FactsModel(profile, tty.environ, vt, tty)
    ratio = ["float", 0.5]          # mode, value
    auto_supported = [None]
    cell_ambiguous = [None]         # acceptable extra value after a pixel-only change
    key = []
    ctx.op("profile %s; terminal %dx%d cell=%s ioctl_px=%s ioctl_fails=%s"
           % (profile.describe(), cols, rows, vt.cell_px, tty.ioctl_pixels, tty.ioctl_fails))
    with w:
        ti, utils = w.ti, w.utils
        # harness functions decorated with the library's own decorators
        calls = {"memo": {}, "tsc": 0}

        @utils.cached
        def memo(a, b=0):
            calls["memo"][(a, b)] = calls["memo"].get((a, b), 0) + 1
            return (a, b, vt.cols, vt.rows, calls["memo"][(a, b)])

        FALSY = (None, 0, False, (), "")

        @utils.cached
        def memo_falsy(a):
            # "unknown" / "not supported" are results too: a memoized None stays memoized
            calls["falsy"][a] = calls["falsy"].get(a, 0) + 1
            return FALSY[a]

        calls["falsy"] = {}

        tsc_fails = [False]

        @utils.terminal_size_cached
        def tsc():
            calls["tsc"] += 1
            if tsc_fails[0]:
                tsc_fails[0] = False
                raise RuntimeError("the computation failed this time")
            return (vt.cols, vt.rows, tuple(vt.cell_px), calls["tsc"])

        memo_expect = {}
        tsc_state = {"size": None, "value": None}
        last_get = {}          # what -> terminal size at the last get
        invalidated_since = {}
        n_ops = ch.int("n_ops", 4, ctx.cfg["max_ops"])
        visited = [(cols, rows)]       # terminal sizes seen so far (resizes often return to one)

        def cell_expect():
            return model.get_cell()

        def note_get(what):
            size = (vt.cols, vt.rows)
            if last_get.get(what) == size and invalidated_since.get(what):
                ctx.probe("toggle_then_get_at_unchanged_size")
                ctx.nontrivial = True
            last_get[what] = size
            invalidated_since[what] = False

        def note_invalidate():
            for what in list(last_get):
                invalidated_since[what] = True

        def check_cell(got, desc):
            exp = cell_expect()
            amb = cell_ambiguous[0]
            ok = got == exp
            if not ok and amb is not None and got == amb[1] and amb[0] == (vt.cols, vt.rows):
                # the pixel-only change was noticed: from now on that is the cached value
                model.cell = ((vt.cols, vt.rows), got)
                ok = True
            cell_ambiguous[0] = None
            check(ok, "cell_size_differs_from_fresh_computation",
                  {"op": desc, "got": got, "expected": exp, "size": (vt.cols, vt.rows),
                   "cell_px": vt.cell_px, "swap": model.swap, "queries": model.queries,
                   "ioctl_px": tty.ioctl_pixels}, "cell")

        for i in range(n_ops):
            op = ch.weighted("op", [
                (5, "resize"), (2, "pixels"), (2, "swap_on"), (2, "swap_off"), (1, "q_off"),
                (2, "q_on"), (3, "set_ratio"), (6, "cell"), (5, "ratio"), (2, "colors"),
                (2, "namever"), (3, "memo"), (3, "tsc"), (1, "inval_memo"), (2, "cell_race"),
                (2, "cell_interrupted"),
            ])
            desc = op
            if op == "resize":
                back = [v for v in visited if v != (vt.cols, vt.rows)]
                if back and ch.bool("revisit", 0.35):
                    # back to an earlier size (un-maximise, font zoom and back, ...): whatever
                    # was computed there the first time is not "fresh" now
                    c2, r2 = ch.pick("earlier", back)
                    ctx.probe("resize_back_to_earlier_size")
                else:
                    c2, r2 = ch.skewed("cols2", 1, 200), ch.skewed("rows2", 1, 60)
                if (c2, r2) not in visited:
                    visited.append((c2, r2))
                if ch.bool("px_too", 0.5):
                    vt.cell_px = (ch.int("cw2", 1, 30), ch.int("chh2", 1, 40))
                vt.resize(r2, c2)
                desc = "resize to %dx%d cells, cell %s px" % (c2, r2, vt.cell_px)
                ctx.probe("resize_then_get")
                note_invalidate()
                cell_ambiguous[0] = None
            elif op == "pixels":
                old = cell_expect() if model.cell is not None and \
                    model.cell[0] == (vt.cols, vt.rows) else None
                vt.cell_px = (ch.int("cw2", 1, 30), ch.int("chh2", 1, 40))
                desc = "pixel-only change: cell %s px" % (vt.cell_px,)
                ctx.probe("pixel_only_change")
                if model.cell is not None and model.cell[0] == (vt.cols, vt.rows):
                    cell_ambiguous[0] = ((vt.cols, vt.rows), model.fresh_cell())
            elif op in ("swap_on", "swap_off"):
                on = op == "swap_on"
                (ti.enable_win_size_swap if on else ti.disable_win_size_swap)()
                if model.swap != on:
                    note_invalidate()
                    cell_ambiguous[0] = None
                model.set_swap(on)
            elif op == "q_off":
                ti.disable_queries()
                model.disable_queries()
            elif op == "q_on":
                if not model.queries:
                    ctx.probe("reenable_queries_discards_disabled_results")
                    note_invalidate()
                    cell_ambiguous[0] = None
                    memo_dummy = None
                ti.enable_queries()
                model.enable_queries()
            elif op == "set_ratio":
                kind = ch.pick("rk", ("float", "FIXED", "DYNAMIC", "bad"))
                if kind == "float":
                    v = ch.pick("rv", (0.5, 0.43, 1.0, 2.5))
                    ti.set_cell_ratio(v)
                    ratio[:] = ["float", v]
                    desc = "set_cell_ratio(%s)" % v
                elif kind == "bad":
                    try:
                        ti.set_cell_ratio(ch.pick("bv", (0.0, -1.5)))
                        raise Violation("non_positive_ratio_accepted", {}, "set_ratio")
                    except ValueError:
                        pass
                    desc = "set_cell_ratio(<= 0) rejected"
                else:
                    member = getattr(ti.AutoCellRatio, kind)
                    cell_now = None
                    if auto_supported[0] is None:
                        cell_now = cell_expect()
                        amb = cell_ambiguous[0]
                        # the support check itself calls get_cell_size()
                    try:
                        ti.set_cell_ratio(member)
                        ok = True
                    except ti.exceptions.TermImageError:
                        ok = False
                    if auto_supported[0] is None:
                        # determined by the first check; accept either outcome of an
                        # ambiguous (pixel-only changed) cell size
                        got_cell = utils.get_cell_size()
                        got_cell = got_cell and tuple(got_cell)
                        check_cell(got_cell, "set_cell_ratio(%s) support check" % kind)
                        auto_supported[0] = got_cell is not None
                    check(ok == auto_supported[0], "auto_ratio_support_inconsistent",
                          {"accepted": ok, "supported": auto_supported[0]}, "set_ratio")
                    if not ok:
                        ctx.probe("auto_ratio_unsupported")
                    desc = "set_cell_ratio(%s) -> %s" % (kind, "ok" if ok else "TermImageError")
                    if ok:
                        if kind == "FIXED":
                            got_cell = utils.get_cell_size()
                            got_cell = got_cell and tuple(got_cell)
                            check_cell(got_cell, "FIXED snapshot")
                            c = got_cell or (1, 2)
                            ratio[:] = ["FIXED", c[0] / c[1]]
                        else:
                            ratio[:] = ["DYNAMIC", None]
            elif op == "cell":
                got = utils.get_cell_size()
                got = got and tuple(got)
                desc = "get_cell_size() -> %r" % (got,)
                check_cell(got, desc)
                note_get("cell")
            elif op == "cell_race":
                # the terminal is re-flowed while a cell-size computation is in flight: whatever
                # that call returns, it must not leave a value filed under a terminal size it
                # was not computed for - the NEXT call has to equal a fresh computation
                c2, r2 = ch.skewed("cols2", 1, 200), ch.skewed("rows2", 1, 60)
                if (c2, r2) == (vt.cols, vt.rows):
                    c2 = c2 + 1
                when = ch.int("race_at", 1, 20_000_000)

                def reflow(c2=c2, r2=r2):
                    vt.resize(r2, c2)
                if (c2, r2) not in visited:
                    visited.append((c2, r2))
                k.after(when, reflow, "reflow")
                utils.get_cell_size()
                if vt.cols != c2 or vt.rows != r2:      # the call returned before the event
                    k.advance(when)
                model.cell = None
                cell_ambiguous[0] = None
                note_invalidate()
                got = utils.get_cell_size()
                got = got and tuple(got)
                desc = "re-flow to %dx%d during get_cell_size(); next get_cell_size() -> %r" % (
                    c2, r2, got)
                ctx.probe("resize_during_cell_size_query")
                check_cell(got, desc)
                note_get("cell")
            elif op == "cell_interrupted":
                # the computation for a new terminal size is interrupted half-way (Ctrl-C
                # while waiting for the reply) and the application carries on: nothing half
                # computed may be served afterwards
                c2, r2 = ch.skewed("cols2", 1, 200), ch.skewed("rows2", 1, 60)
                if (c2, r2) == (vt.cols, vt.rows):
                    c2 += 1
                if (c2, r2) not in visited:
                    visited.append((c2, r2))
                vt.resize(r2, c2)
                kind = ch.pick("ikind", ("tty.select", "tty.read", "tty.write", "tty.tcsetattr"))
                k.fault = {"kind": kind, "k": k.counts.get(kind, 0) + ch.int("ik", 1, 3),
                           "when": "before", "exc": "KeyboardInterrupt"}
                k.fault_done = False
                interrupted = False
                try:
                    utils.get_cell_size()
                except KeyboardInterrupt:
                    interrupted = True
                    ctx.probe("cell_size_query_interrupted")
                k.fault = None
                if tty.last_reply_at > k.now:
                    k.advance(tty.last_reply_at - k.now)
                tty.inq.clear()          # replies to the abandoned query are strays
                note_invalidate()
                cell_ambiguous[0] = None
                if interrupted:
                    model.cell = None
                got = utils.get_cell_size()
                got = got and tuple(got)
                desc = "resize to %dx%d, get_cell_size() %s; next get_cell_size() -> %r" % (
                    c2, r2, "interrupted by Ctrl-C" if interrupted else "completed", got)
                check_cell(got, desc)
                note_get("cell")
            elif op == "ratio":
                got = ti.get_cell_ratio()
                desc = "get_cell_ratio() -> %r [%s]" % (got, ratio[0])
                if ratio[0] == "DYNAMIC":
                    gc_ = utils.get_cell_size()
                    gc_ = gc_ and tuple(gc_)
                    check_cell(gc_, "get_cell_ratio()/DYNAMIC")
                    c = gc_ or (1, 2)
                    exp = c[0] / c[1]
                    ctx.probe("dynamic_ratio_follows_resize")
                else:
                    exp = ratio[1]
                    if ratio[0] == "FIXED":
                        ctx.probe("fixed_ratio_survives_resize")
                check(got == exp, "cell_ratio_differs_from_fresh_computation",
                      {"got": got, "expected": exp, "mode": ratio[0]}, "ratio")
                note_get("ratio")
            elif op == "colors":
                hexa = ch.bool("hex", 0.3)
                got = utils.get_fg_bg_colors(hex=hexa)
                fg, bg = model.get_colors(hexa)
                if hexa:
                    fg = fg and "#%02x%02x%02x" % fg
                    bg = bg and "#%02x%02x%02x" % bg
                desc = "get_fg_bg_colors(hex=%s) -> %r" % (hexa, got)
                check(got == (fg, bg), "colours_differ_from_fresh_computation",
                      {"got": got, "expected": (fg, bg), "queries": model.queries}, "colors")
                note_get("colors%s" % hexa)
            elif op == "namever":
                got = utils.get_terminal_name_version()
                exp = model.get_namever()
                desc = "get_terminal_name_version() -> %r" % (got,)
                check(got == exp, "name_version_differs_from_fresh_computation",
                      {"got": got, "expected": exp, "queries": model.queries}, "namever")
                note_get("namever")
            elif op == "memo" and ch.bool("many", 0.08):
                # many distinct argument tuples on one memoized function: none of them may be
                # forgotten before an invalidation
                n_many = ch.int("n_many", 130, 300)
                for x in range(n_many):
                    memo(1000 + x)
                again = ch.int("again", 0, n_many - 1)
                got = memo(1000 + again)
                desc = "memo(1000..%d), then memo(%d) again" % (1000 + n_many - 1, 1000 + again)
                ctx.probe("many_distinct_memo_arguments")
                check(calls["memo"].get((1000 + again, 0)) == 1, "memoized_function_recomputed",
                      {"args": 1000 + again, "body_runs": calls["memo"].get((1000 + again, 0)),
                       "distinct_arguments": n_many}, "memo")
            elif op == "memo" and ch.bool("falsy", 0.35):
                a = ch.int("fa", 0, len(FALSY) - 1)
                got = memo_falsy(a)
                desc = "memo_falsy(%d) -> %r (body ran %d time(s))" % (a, got, calls["falsy"][a])
                ctx.probe("memoized_falsy_result")
                check(got == FALSY[a] and type(got) is type(FALSY[a]) and calls["falsy"][a] == 1,
                      "memoized_function_recomputed",
                      {"args": a, "got": got, "body_runs": calls["falsy"][a]}, "memo")
            elif op == "memo":
                # (among the arguments: distinct values whose hashes coincide in CPython)
                a = ch.pick("ma", (0, 1, 2, -1, -2, 2 ** 61 - 1))
                b = ch.pick("mb", (0, 0, 1, -1, -2))
                got = memo(a, b=b) if b else memo(a)
                check(got[:2] == (a, b), "memoized_value_of_other_arguments_returned",
                      {"args": (a, b), "got": got}, "memo")
                kk = (a, b) if b else (a, 0)
                argkey = ("kw", a, b) if b else ("pos", a)
                if argkey not in memo_expect:
                    memo_expect[argkey] = got
                    ctx.probe("memo_body_once")
                check(got is memo_expect[argkey], "memoized_function_recomputed",
                      {"args": argkey, "got": got, "first": memo_expect[argkey]}, "memo")
                desc = "memo%r -> %r" % (argkey, got)
            elif op == "tsc":
                size = (vt.cols, vt.rows)
                n0 = calls["tsc"]
                fresh_needed = tsc_state["size"] != size
                if fresh_needed and ch.bool("tsc_body_fails", 0.2):
                    # the computation fails on the first call at this size: nothing is
                    # memoized for it, the next call computes again
                    tsc_fails[0] = True
                    try:
                        tsc()
                        failed = False
                    except RuntimeError:
                        failed = True
                    check(failed and calls["tsc"] == n0 + 1, "failure_of_memoized_body_swallowed",
                          {"size": size, "body_runs": calls["tsc"] - n0}, "tsc")
                    ctx.probe("terminal_size_cached_body_failed")
                    n0 = calls["tsc"]
                got = tsc()
                if fresh_needed:
                    check(calls["tsc"] == n0 + 1 and got[:3] == size + (tuple(vt.cell_px),),
                          "terminal_size_cached_value_is_stale",
                          {"got": got, "size": size, "cell_px": vt.cell_px}, "tsc")
                    tsc_state.update(size=size, value=got)
                    ctx.probe("terminal_size_cached_recomputed")
                else:
                    check(calls["tsc"] == n0 and got is tsc_state["value"],
                          "terminal_size_cached_recomputed_without_resize",
                          {"got": got, "size": size}, "tsc")
                desc = "tsc() -> %r" % (got,)
            else:
                memo._invalidate_cache()
                memo_falsy._invalidate_cache()
                calls["falsy"].clear()
                calls["memo"].clear()
                tsc._invalidate_terminal_size_cache()
                memo_expect.clear()
                tsc_state.update(size=None, value=None)
                desc = "invalidate harness memo tables"
            ctx.op(desc)
            key.append(desc)
            if tty.last_reply_at > k.now:
                k.advance(tty.last_reply_at - k.now)
            check(not tty.inq, "reply_bytes_left_unread", {"after": desc}, "queue")
        ctx.key(profile.describe(), key)
        ctx.log("trace", key)


def run_concurrent(ch, ctx, fault):
    ctx.probe("concurrent_first_calls")
    profile = gen_profile(ch, always_da1=True)
    w = World(ctx, ch, fault, rows=24, cols=80, profile=profile, cell_px=(8, 16), reuse=True)
    k, tty, vt = w.k, w.tty, w.vt
    k.log_seams = False
    k.policy = ch.pick("policy", ("random", "sticky", "pct"))
    if k.policy == "pct":
        k.pct_points = tuple(sorted(ch.int("pctp", 1, 200) for _ in range(ch.int("pctd", 1, 3))))
    line_level = ch.bool("line_level", 0.5)
    tty.delay_fn = lambda kind: ch.int("delay", 0, 5_000_000)
    tty.ioctl_pixels = ch.bool("ioctl_px", 0.5)
    ntasks = ch.int("ntasks", 2, 4)
    model = FactsModel(profile, tty.environ, vt, tty)
    with w:
        utils, ti = w.utils, w.ti
        calls = {}
        inside = [0]

        falsy_results = ch.bool("falsy_results", 0.3)

        @utils.cached
        def memo(a):
            calls[a] = calls.get(a, 0) + 1
            inside[0] += 1
            k.yield_point("memo-body")
            k.yield_point("memo-body2")
            inside[0] -= 1
            if falsy_results:
                return (None, 0)[a]
            return ("value", a, calls[a])

        tsc_calls = [0]
        pw = [None]

        tsc_plan = []      # terminal sizes the next body invocations switch to while running

        @utils.terminal_size_cached
        def tsc():
            tsc_calls[0] += 1
            start = (vt.cols, vt.rows)
            if tsc_plan:
                vt.resize(*tsc_plan.pop(0)[::-1])
            k.yield_point("tsc-body")
            if tsc_plan:
                vt.resize(*tsc_plan.pop(0)[::-1])
            k.yield_point("tsc-body2")
            # (the last field: the terminal had one size for the whole computation)
            return ("tsc", vt.cols, vt.rows, tsc_calls[0], start == (vt.cols, vt.rows))

        rounds = ch.int("rounds", 1, 3)
        results = []
        for rnd in range(rounds):
            which = ch.pick("fn", ("memo", "memo", "tsc", "colors", "namever", "cell"))
            args = [ch.int("arg", 0, 1) for _ in range(ntasks)]
            # enable_queries() racing with first calls: "re-enabling queries discards results
            # obtained while they were disabled" - whatever the interleaving, once both have
            # finished nothing obtained while disabled may be served any more
            enable_race = which not in ("memo", "tsc") and ch.bool("enable_race", 0.35)
            # the win-size-swap toggle racing with cell-size computations
            swap_race = which == "cell" and not enable_race and ch.bool("swap_race", 0.4)
            # ... and with the first Process.start(), which replaces the cell-size lock (and
            # cache) by process-shared ones while other threads may be waiting on the old lock
            start_race = swap_race and ntasks >= 3 and ch.bool("start_race", 0.5)
            if start_race and pw[0] is None:
                pw[0] = procs.ProcWorld(w)
            if swap_race:
                ctx.probe("swap_toggle_races_with_cell_size_calls")
                if ch.bool("warm", 0.5):
                    utils.get_cell_size()
            if enable_race:
                ti.disable_queries()
                if ch.bool("call_while_disabled", 0.5):
                    if which == "colors":
                        utils.get_fg_bg_colors(hex=bool(args[0]))
                    elif which == "namever":
                        utils.get_terminal_name_version()
                    else:
                        utils.get_cell_size()
                ctx.probe("enable_queries_races_with_first_call")
            # the terminal is resized twice while the first computation runs (and holds the
            # lock), other first callers arriving in between; afterwards it returns to the
            # size in between: whatever is served for a size was computed at that size
            tsc_resize = which == "tsc" and ch.bool("tsc_resize", 0.5)
            if tsc_resize:
                s0 = (vt.cols, vt.rows)
                s1 = (s0[0] + ch.int("dc1", 1, 5), s0[1] + ch.int("dr1", 0, 3))
                s2 = (s1[0] + ch.int("dc2", 1, 5), s1[1] + ch.int("dr2", 0, 3))
                tsc_plan[:] = [s1, s2]
                ctx.probe("resizes_while_terminal_size_cached_body_runs")
            writes0 = k.counts.get("tty.write", 0)
            got = {}
            k.tasks = []
            k.aborting = False

            def body(j, which=which, args=args, got=got, enable_race=enable_race,
                     swap_race=swap_race, start_race=start_race):
                if start_race and j == 1:
                    ctx.probe("process_start_races_with_cell_size_calls")
                    pw[0].start_process(lambda pw_, child: None,
                                        ch.pick("method", ("fork", "spawn")), "child")
                    got[j] = "Process.start()"
                elif enable_race and j == 0:
                    ti.enable_queries()
                    got[j] = "enable_queries()"
                elif swap_race and j == 0:
                    (ti.disable_win_size_swap if model.swap else ti.enable_win_size_swap)()
                    got[j] = "toggle win-size swap"
                elif which == "memo":
                    got[j] = memo(args[j])
                elif which == "tsc":
                    got[j] = tsc()
                elif which == "colors":
                    got[j] = utils.get_fg_bg_colors(hex=bool(args[j]))
                elif which == "namever":
                    got[j] = utils.get_terminal_name_version()
                else:
                    got[j] = utils.get_cell_size()
            if line_level:
                k.tracefunc = procs.make_tracer(k, src_dir())
            for j in range(ntasks):
                k.spawn((lambda j=j: body(j)), "t%d" % j, 0)
            k.run_tasks()
            k.tracefunc = None
            for t in k.tasks:
                if t.exc is not None:
                    if isinstance(t.exc, Violation):
                        raise Violation(t.exc.invariant, t.exc.detail, t.exc.site)
                    raise Violation("task_raised", {"task": t.name, "exc": repr(t.exc)}, "task")
            writes = k.counts.get("tty.write", 0) - writes0
            ctx.op("round %d: %d tasks first-call %s%r -> %r (%d queries sent, %d switches)"
                   % (rnd, ntasks, which, args, [got.get(j) for j in range(ntasks)], writes,
                      k.switches))
            results.append((which, args, writes, enable_race, swap_race, tsc_resize))
            if swap_race:
                model.set_swap(not model.swap)
                check(bool(utils._swap_win_size) == model.swap, "swap_flag_not_toggled", {},
                      "concurrent.swap")
                if tty.last_reply_at > k.now:
                    k.advance(tty.last_reply_at - k.now)
                tty.inq.clear()
                g = utils.get_cell_size()
                g = g and tuple(g)
                check(g == model.fresh_cell(), "cell_size_computed_under_old_swap_setting_survives",
                      {"got": g, "fresh": model.fresh_cell(), "swap": model.swap,
                       "tasks": [repr(got.get(j)) for j in range(ntasks)]}, "concurrent.swap")
            elif enable_race:
                check(utils._queries_enabled, "queries_not_enabled", {}, "concurrent.enable")
                if tty.last_reply_at > k.now:
                    k.advance(tty.last_reply_at - k.now)
                tty.inq.clear()
                if which == "colors":
                    for a in sorted(set(args[1:])):
                        g = utils.get_fg_bg_colors(hex=bool(a))
                        fg, bg = model.fresh_colors()
                        if a:
                            fg = fg and "#%02x%02x%02x" % fg
                            bg = bg and "#%02x%02x%02x" % bg
                        check(g == (fg, bg), "result_obtained_while_queries_disabled_survives",
                              {"function": "get_fg_bg_colors(hex=%s)" % bool(a), "got": g,
                               "fresh": (fg, bg), "tasks": [got.get(j) for j in range(ntasks)]},
                              "concurrent.enable")
                elif which == "namever":
                    g = utils.get_terminal_name_version()
                    check(g == model.fresh_namever(),
                          "result_obtained_while_queries_disabled_survives",
                          {"function": "get_terminal_name_version", "got": g,
                           "fresh": model.fresh_namever()}, "concurrent.enable")
                else:
                    g = utils.get_cell_size()
                    g = g and tuple(g)
                    check(g == model.fresh_cell(),
                          "result_obtained_while_queries_disabled_survives",
                          {"function": "get_cell_size", "got": g, "fresh": model.fresh_cell()},
                          "concurrent.enable")
            elif tsc_resize:
                del tsc_plan[:]
                for size in (s1, s2, s0, s1):
                    vt.resize(*size[::-1])
                    n0 = tsc_calls[0]
                    v = tsc()
                    check(v[4] is False or v[1:3] == size,
                          "value_served_for_a_terminal_size_it_was_not_computed_at",
                          {"terminal": size, "computed_at": v[1:3],
                           "body_ran_for_this_call": tsc_calls[0] != n0,
                           "tasks": [repr(got.get(j)) for j in range(ntasks)]},
                          "concurrent.tsc")
                vt.resize(*s0[::-1])
            elif which == "tsc":
                check(tsc_calls[0] == 1, "terminal_size_cached_body_ran_more_than_once",
                      {"count": tsc_calls[0]}, "concurrent.tsc")
                vals = [got[j] for j in range(ntasks)]
                check(all(v is vals[0] for v in vals), "callers_got_different_objects",
                      {"values": vals}, "concurrent.tsc")
            elif which == "memo":
                for a in set(args):
                    check(calls.get(a, 0) == 1, "memoized_body_ran_more_than_once",
                          {"arg": a, "count": calls.get(a, 0)}, "concurrent.memo")
                    vals = [got[j] for j in range(ntasks) if args[j] == a]
                    check(all(v is vals[0] for v in vals), "callers_got_different_objects",
                          {"arg": a, "values": vals}, "concurrent.memo")
            else:
                distinct_args = len(set(args)) if which == "colors" else 1
                check(writes <= distinct_args, "terminal_queried_more_than_once_for_first_calls",
                      {"function": which, "queries": writes, "distinct_args": distinct_args},
                      "concurrent." + which)
                groups = {}
                for j in range(ntasks):
                    groups.setdefault(args[j] if which == "colors" else 0, []).append(got[j])
                for a, vals in groups.items():
                    check(all(v == vals[0] for v in vals), "callers_got_different_values",
                          {"function": which, "values": vals}, "concurrent." + which)
            # invalidate at a quiescent point between bursts
            memo._invalidate_cache()
            calls.clear()
            tsc._invalidate_terminal_size_cache()
            tsc_calls[0] = 0
            utils.get_fg_bg_colors._invalidate_cache()
            utils.get_terminal_name_version._invalidate_cache()
            with utils._cell_size_lock:
                utils._cell_size_cache[:] = (0,) * 4
            if tty.last_reply_at > k.now:
                k.advance(tty.last_reply_at - k.now)
            tty.inq.clear()
        if k.contended:
            ctx.nontrivial = True
            ctx.probe("task_waited_on_memo_lock")
        ctx.key(results, k.policy, k.sched_trace[:60])
        ctx.log("sched", k.sched_trace[:1500], results)
