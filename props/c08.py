"""C08 - a render iterator yields exactly the frames its operation history dictates."""
from __future__ import annotations

from simkit import simrenderable
from simkit.core import Violation, check
from simkit.drawworld import PadModel
from simkit.world import World

ID = "C08"
LEVEL = "exploration"
TECHNIQUE = ("deterministic simulation: seeded operation histories (with terminal resizes as "
             "environment events) on the real RenderIterator, checked step by step against a "
             "small executable reference iterator")
LEVEL_TEXT = ("Seeded histories of <= 40 operations (next, seek START/CURRENT/END in and out of "
              "range, set_frame_duration, set_padding exact/absolute/terminal-relative, "
              "set_render_args compatible/incompatible, set_render_size, close, terminal resize, "
              "renderable.seek) over an instrumented renderable with 2-6 frames or an INDEFINITE "
              "stream, loops in {-1,1,2,3}, every cache setting, both constructors. After every "
              "operation the yielded frame (number, duration, size, output), the loop countdown, "
              "the raised error and the renderable's own current frame are compared with a "
              "~70-line reference model written from the docstrings. Sampling, not proof.")
LEVEL_NOTE = ("Trusted: the reference model (DESIGN.md Appendix B), SimRenderable (harness code "
              "following the documented extension API, output is a function of what it is "
              "handed), the library's Padding.pad for building expected padded strings (C05 is "
              "not under test here).")
TIERS = {
    "quick": {"runs": 40000, "max_ops": 40},
    "thorough": {"runs": 1500000, "max_ops": 80, "wall_cap": 1200},
}
RULE = ("history = seeded constructor arguments (frame count 2-6 or INDEFINITE stream of 0-8 "
        "frames, loops, cache, padding kind, static or DYNAMIC duration, __init__ or "
        "_from_render_data_) + <= max_ops seeded operations with arbitrary arguments; "
        "non-trivial = at least one seek or setting change lies between two next() calls; "
        "distinct = hash of the operation list")
PROBES = ["seek_at_loop_boundary", "seek_after_exhaustion", "relative_padding_set_mid_iteration",
          "indefinite_double_seek_before_render", "out_of_range_seek_rejected",
          "op_on_closed_iterator", "terminal_resized_before_relative_padding",
          "loops_completed_without_seek", "from_render_data_constructor",
          "render_data_used_by_an_earlier_iterator", "render_of_next_frame_failed",
          "postponed_frame_count", "arguments_of_a_parent_class"]
COMPONENTS = {
    "real": ["term_image.render.RenderIterator", "Renderable._init_render_/_get_render_data_",
             "RenderArgs/RenderData", "padding.*"],
    "stub": ["terminal size source (SimTTY)", "concrete renderable (SimRenderable, harness)"],
}
ASSUMPTIONS = ["the reference model in props/c08.py is a faithful reading of the RenderIterator "
               "docstrings (seek tables, footnote ri-nf, 'takes effect from the next rendered "
               "frame')"]

START, CURRENT, END = 0, 1, 2


class RefIter:
    """Executable reference model of RenderIterator (see DESIGN.md Appendix B)."""

    def __init__(self, n, stream_len, loops, size, duration, char, padmodel, term):
        self.n = n                     # None => INDEFINITE
        self.stream_len = stream_len
        self.loop = 1 if n is None else loops
        self.nf = 0
        self.pend = (0, START)
        self.pos = 0
        self.closed = False
        self.handed = []
        self.size = size
        self.duration = duration       # int or "DYNAMIC"
        self.char = char
        self.shift = 0
        self.set_padding(padmodel, term)

    def set_padding(self, padmodel, term):
        self.margins_of = (padmodel, term)

    def margins(self):
        pm, term = self.margins_of
        return pm.margins(self.size, term)

    def close(self):
        self.closed = True

    def next(self):
        """Returns ('frame', number, duration, padded_size, size, char, margins) or 'stop'."""
        if self.closed:
            return "stop"
        if self.n is not None:
            while True:
                if self.nf < self.n:
                    break
                self.nf = 0
                if self.loop > 0:
                    self.loop -= 1
                if self.loop == 0:
                    self.close()
                    return "stop"
            f = self.nf
            self.nf += 1
        else:
            off, wh = self.pend
            if off or wh != CURRENT:
                self.handed.append((off, wh))
            if wh == START:
                self.pos = off
            elif wh == CURRENT:
                self.pos = max(0, self.pos + off)
            else:
                self.pos = max(0, self.stream_len - 1 + off)
            if self.pos >= self.stream_len:
                self.loop = 0
                self.close()
                return "stop"
            f = self.pos
            self.pos += 1
            self.pend = (0, CURRENT)
        dur = 10 * (f + 1) if self.duration == "DYNAMIC" else self.duration
        l, t, r, b = self.margins()
        padded = (l + self.size[0] + r, t + self.size[1] + b)
        return ("frame", f, dur, padded, self.size, (self.char, self.shift), (l, t, r, b))

    def seek(self, off, wh):
        if self.closed:
            return "FinalizedIteratorError"
        if self.n is not None:
            t = off if wh == START else (self.nf + off if wh == CURRENT else self.n + off - 1)
            if not 0 <= t < self.n:
                return "ValueError"
            self.nf = t
        else:
            if (wh == START and off < 0) or (wh == END and off > 0):
                return "ValueError"
            self.pend = (off, wh)
        return None


def gen_padmodel(ch, term_hint):
    kind = ch.weighted("padkind", [(3, "none"), (3, "exact"), (3, "abs"), (3, "rel")])
    fill = ch.pick("fill", (" ", ".", ""))
    if kind == "none":
        return PadModel("exact", fill=fill)
    if kind == "exact":
        return PadModel("exact", ch.int("pl", 0, 3), ch.int("pt", 0, 2), ch.int("pr", 0, 3),
                        ch.int("pb", 0, 2), fill)
    h, v = ch.int("ha", 0, 2), ch.int("va", 0, 2)
    if kind == "abs":
        return PadModel("aligned", fill=fill, width=ch.int("pw", 1, 12), height=ch.int("ph", 1, 6),
                        h=h, v=v)
    return PadModel("aligned", fill=fill, width=-ch.int("prw", 0, 12),
                    height=-ch.int("prh", 0, 6) if ch.bool("relboth", 0.7) else ch.int("ph", 1, 6),
                    h=h, v=v)


def run(ch, ctx, fault=None):
    rows, cols = ch.int("rows", 1, 12), ch.int("cols", 1, 24)
    w = World(ctx, ch, fault, rows=rows, cols=cols, reuse=True)
    w.k.log_seams = False
    hooks = simrenderable.Hooks(None)
    vt = w.vt
    with w:
        ti = w.ti
        R = ti.renderable
        from term_image import padding as padding_mod
        from term_image.render import RenderIterator
        SimR = simrenderable.make(R, hooks)

        class Other(R.Renderable):
            def _get_render_size_(self):
                return ti.geometry.Size(1, 1)

            def _render_(self, render_data, render_args):
                raise NotImplementedError

        class OtherArgs(R.ArgsNamespace, render_cls=Other):
            x: int = 0

        class Child(SimR):
            """a strict subclass of the iterated renderable's class: its argument sets are
            not compatible with the parent class (only the other way round)"""

        indefinite = ch.bool("indefinite", 0.3)
        n = None if indefinite else ch.int("n", 2, 6)
        stream_len = ch.int("stream", 0, 8) if indefinite else 0
        loops = ch.pick("loops", (-1, 1, 2, 3, -2, -7))
        size = (ch.int("w", 1, 4), ch.int("h", 1, 3))
        dynamic = ch.bool("dynamic", 0.3)
        dur0 = "DYNAMIC" if dynamic else ch.int("dur", 1, 50)
        if n is None:
            cache = ch.pick("cache", (False, True, 1, 100))
        else:
            cache = ch.pick("cache", (False, True, max(1, n - 1), n, n + 1))
        pm = gen_padmodel(ch, (cols, rows))
        char0 = ch.pick("char", "#@")
        via_data = ch.bool("via_data", 0.3)
        # (for some the frame count is POSTPONED: worked out when first asked for)
        postponed = ch.bool("postponed_frame_count", 0.25)
        if postponed:
            ctx.probe("postponed_frame_count")
        # (some iterated renderables are of a subclass: SimR's arguments are then arguments
        # of a parent class, converted on the way in)
        IterCls = SimR
        if ch.bool("iterate_a_subclass", 0.3):
            IterCls = type("SimRSub", (SimR,), {})
            ctx.probe("arguments_of_a_parent_class")
        r = IterCls(R.FrameCount.INDEFINITE if indefinite else n,
                    R.FrameDuration.DYNAMIC if dynamic else dur0,
                    ti.geometry.Size(*size), stream_len=stream_len, postponed=postponed)
        rtell = 0
        if not indefinite and ch.bool("preseek", 0.3):
            rtell = ch.int("rtell", 0, n - 1)
            r.seek(rtell)
        args0 = +SimR.SimArgs(char0) if char0 != "#" else None
        ctx.op("terminal %dx%d; SimRenderable(frames=%s, size=%s, duration=%s, tell=%d); "
               "RenderIterator(%s, char=%r, padding=%s, loops=%d, cache=%r)"
               % (cols, rows, "INDEFINITE/%d" % stream_len if indefinite else n, size, dur0, rtell,
                  "_from_render_data_" if via_data else "__init__", char0, pm.describe(), loops,
                  cache))
        try:
            if via_data:
                ctx.probe("from_render_data_constructor")
                rd = r._get_render_data_(iteration=True)
                if not indefinite and ch.bool("data_used_before", 0.4):
                    # the caller's data has served an earlier iterator that was closed part
                    # of the way through (a replayed animation): the new one starts afresh
                    ctx.probe("render_data_used_by_an_earlier_iterator")
                    early = RenderIterator._from_render_data_(
                        r, rd, None, padding_mod.ExactPadding(), 1, False, finalize=False)
                    for _ in range(ch.int("early_frames", 1, n)):
                        next(early)
                    if ch.bool("early_seek", 0.3):
                        early.seek(ch.int("early_pos", 0, n - 1))
                        next(early)
                    early.close()
                    del early
                it = RenderIterator._from_render_data_(r, rd, args0, pm.build(padding_mod), loops,
                                                       cache)
            else:
                it = RenderIterator(r, args0, pm.build(padding_mod), loops, cache)
        except Exception as e:
            raise Violation("constructor_raised", {"exc": repr(e)}, "init")
        model = RefIter(n, stream_len, loops, size, dur0, char0, pm, (cols, rows))
        term = [cols, rows]
        setting_changed = [False]
        nexts = 0
        seeks_since_next = 0
        any_seek = False
        frames_out = 0
        n_ops = ch.int("n_ops", 4, ctx.cfg["max_ops"])
        trace_key = []

        def expect_exc(name, fn, desc, site):
            try:
                fn()
            except Exception as e:
                got = type(e).__name__
            else:
                got = None
            ctx.op("%s -> %s" % (desc, got or "ok"))
            trace_key.append((site, desc, got))
            check(got == name, "wrong_error_for_operation",
                  {"op": desc, "got": got, "expected": name}, site)

        for i in range(n_ops):
            op = ch.weighted("op", [
                (12, "next"), (6, "seek"), (2, "duration"), (3, "padding"), (2, "args"),
                (2, "size"), (1, "close"), (2, "resize"), (1, "rseek"), (1, "loop"),
                (1 if cache is False and n is not None else 0, "next_failing"),
            ])
            if op == "next_failing":
                # the render of the next frame (of a definite source) fails: the iterator is
                # finalized there and then, the countdown keeps its value
                import copy
                if model.closed or copy.deepcopy(model).next() == "stop":
                    continue
                how = ch.pick("render_raises", ("StopIteration", "RuntimeError"))

                def failing(how=how):
                    raise StopIteration if how == "StopIteration" else RuntimeError("render failed")

                hooks.on_render = failing
                model.next()       # (a loop boundary on the way to that frame is crossed first)
                want = "StopDefiniteIterationError" if how == "StopIteration" else how
                model.close()
                ctx.probe("render_of_next_frame_failed")
                expect_exc(want, lambda: next(it), "next() with a render raising %s" % how, "next")
                hooks.on_render = None
            elif op == "next":
                exp = model.next()
                try:
                    got = next(it)
                    err = None
                except StopIteration:
                    got = None
                    err = "stop"
                except Exception as e:
                    raise Violation("next_raised", {"exc": repr(e), "step": i}, "next")
                if exp == "stop":
                    ctx.op("next -> %s" % ("StopIteration" if err else tuple(got)[:3],))
                    check(err == "stop", "frame_yielded_after_documented_end",
                          {"got": got and tuple(got)[:3], "step": i}, "next")
                    if n is not None and not any_seek and loops > 0 and frames_out == loops * n:
                        ctx.probe("loops_completed_without_seek")
                else:
                    _, f, dur, padded, sz, char, (l, t, rr, b) = exp
                    ctx.op("next -> %s" % ("StopIteration" if err else
                                           "Frame(number=%r, duration=%r, size=%r)"
                                           % (got.number, got.duration, tuple(got.render_size)),))
                    check(err is None, "iteration_ended_early",
                          {"expected_frame": f, "step": i, "loop": model.loop}, "next")
                    char, shift = char
                    out = simrenderable.frame_output(f, sz, char, dur, shift)
                    if padded != sz:
                        out = padding_mod.ExactPadding(l, t, rr, b, model.margins_of[0].fill).pad(
                            out, ti.geometry.Size(*sz))
                    check((got.number, got.duration, tuple(got.render_size)) == (f, dur, padded),
                          "frame_differs_from_model",
                          {"got": repr((got.number, got.duration, tuple(got.render_size))),
                           "expected": (f, dur, padded), "step": i}, "next")
                    check(got.render_output == out, "frame_output_differs_from_model",
                          {"got": got.render_output[:120], "expected": out[:120], "step": i,
                           "frame": f}, "next")
                    frames_out += 1
                    if nexts and (seeks_since_next or setting_changed[0]):
                        ctx.nontrivial = True
                nexts += 1
                seeks_since_next = 0
                setting_changed[0] = False
                trace_key.append(("next", exp if exp == "stop" else exp[1:4]))
            elif op == "seek":
                wh = ch.int("whence", 0, 2)
                span = (n or 5) + 2
                off = ch.int("off", -span, span)
                if n is not None and model.nf == n and not model.closed:
                    ctx.probe("seek_at_loop_boundary")
                if model.closed:
                    ctx.probe("seek_after_exhaustion")
                if n is None and seeks_since_next and not model.closed:
                    ctx.probe("indefinite_double_seek_before_render")
                expn = model.seek(off, wh)
                if expn == "ValueError":
                    ctx.probe("out_of_range_seek_rejected")
                if expn is None:
                    seeks_since_next += 1
                    any_seek = True
                expect_exc(expn, lambda: it.seek(off, R.Seek(wh)),
                           "seek(%d, %s)" % (off, ("START", "CURRENT", "END")[wh]), "seek")
            elif op == "duration":
                d = ch.pick("newdur", (5, 20, 0, -3, "DYNAMIC", 33))
                if model.closed:
                    expn = "FinalizedIteratorError"
                elif d != "DYNAMIC" and d <= 0:
                    expn = "ValueError"
                else:
                    expn = None
                    model.duration = d
                    setting_changed[0] = True
                arg = R.FrameDuration.DYNAMIC if d == "DYNAMIC" else d
                expect_exc(expn, lambda: it.set_frame_duration(arg),
                           "set_frame_duration(%s)" % d, "set_frame_duration")
            elif op == "padding":
                pm2 = gen_padmodel(ch, tuple(term))
                if model.closed:
                    expn = "FinalizedIteratorError"
                else:
                    expn = None
                    model.set_padding(pm2, tuple(term))
                    setting_changed[0] = True
                    if pm2.kind == "aligned" and (pm2.width <= 0 or pm2.height <= 0):
                        ctx.probe("relative_padding_set_mid_iteration")
                expect_exc(expn, lambda: it.set_padding(pm2.build(padding_mod)),
                           "set_padding(%s) [terminal %dx%d]" % (pm2.describe(), term[0], term[1]),
                           "set_padding")
            elif op == "args":
                kind = ch.pick("argkind", ("own", "own", "base", "other", "child"))
                c2 = ch.pick("char2", "#@%")
                sh2 = ch.pick("shift2", (0, 0, -1, -2, 1))
                if kind == "own":
                    # (a field value need not be hashable)
                    a = +SimR.SimArgs(c2, sh2, ch.pick("tag", (None, None, [1], {})))
                elif kind == "base":
                    a = R.RenderArgs(R.Renderable)
                    c2, sh2 = "#", 0
                elif kind == "child":
                    a = R.RenderArgs(Child, SimR.SimArgs(c2, sh2))
                else:
                    a = R.RenderArgs(Other)
                if model.closed:
                    expn = "FinalizedIteratorError"
                elif kind in ("other", "child"):
                    expn = "IncompatibleRenderArgsError"
                else:
                    expn = None
                    model.char = c2
                    model.shift = sh2
                    setting_changed[0] = True
                expect_exc(expn, lambda: it.set_render_args(a),
                           "set_render_args(%s char=%r shift=%d)" % (kind, c2, sh2),
                           "set_render_args")
            elif op == "size":
                s2 = (ch.int("w2", 1, 5), ch.int("h2", 1, 3))
                if model.closed:
                    expn = "FinalizedIteratorError"
                else:
                    expn = None
                    model.size = s2
                    setting_changed[0] = True
                expect_exc(expn, lambda: it.set_render_size(ti.geometry.Size(*s2)),
                           "set_render_size(%s)" % (s2,), "set_render_size")
            elif op == "close":
                model.close()
                expect_exc(None, it.close, "close()", "close")
            elif op == "resize":
                term[0], term[1] = ch.int("cols2", 1, 24), ch.int("rows2", 1, 12)
                vt.resize(term[1], term[0])
                ctx.op("terminal resized to %dx%d" % (term[0], term[1]))
                ctx.probe("terminal_resized_before_relative_padding")
                trace_key.append(("resize", tuple(term)))
            elif op == "rseek":
                if not indefinite:
                    rtell = ch.int("rtell2", 0, n - 1)
                    r.seek(rtell)
                    ctx.op("renderable.seek(%d)" % rtell)
                    trace_key.append(("rseek", rtell))
            if model.closed and op not in ("close", "next", "resize", "rseek", "loop"):
                ctx.probe("op_on_closed_iterator")
            # invariants after every operation
            check(it.loop == model.loop, "loop_countdown_differs_from_model",
                  {"got": it.loop, "expected": model.loop, "after": op, "step": i}, "loop")
            check(r.tell() == rtell, "iterator_moved_the_renderables_current_frame",
                  {"tell": r.tell(), "expected": rtell, "after": op}, "tell")
        if indefinite:
            handed = [(o, wh_) for (_, o, wh_) in hooks.stream_seeks]
            ctx.log("handed", handed)
            check(handed == model.handed, "pending_seek_not_handed_over_exactly_once",
                  {"renderable_saw": handed, "model": model.handed}, "indefinite")
        ctx.key(trace_key)
        ctx.log("trace", trace_key)
        it.close()
