"""C04 - automatic sizing always fits the frame, fills it, and preserves aspect ratio."""
from __future__ import annotations

import io
from fractions import Fraction

from simkit import drawworld as dw
from simkit import images
from simkit.core import Violation, check
from simkit.world import World

ID = "C04"
LEVEL = "exploration"
TECHNIQUE = ("deterministic simulation: seeded histories of set_size / size= / terminal resize / "
             "cell-size change / set_cell_ratio / win-size-swap / reads / renders on the simulated "
             "tty; exact-rational sizing oracle evaluated as a per-step invariant")
LEVEL_TEXT = ("The arithmetic clauses are pure; what makes this a simulation target is the last "
              "sentence of the property (fixed sizes survive later terminal and cell-ratio "
              "changes, dynamic sizes follow them) and the fact that every size is computed from "
              "the active terminal (terminal size, cell size via ioctl or an XTWINOPS query, "
              "DYNAMIC cell ratio with its per-terminal-size cache). Seeded histories of 8-30 "
              "operations over 1-3 images of both style families run on the simulated tty; after "
              "every operation an exact-rational (fractions.Fraction) evaluation of the documented "
              "rules under the CURRENT simulated terminal is checked: positivity, FIT/AUTO within "
              "the frame, FIT touches an axis, FIT_TO_WIDTH has the frame width, AUTO = ORIGINAL "
              "iff it fits, given dimension kept, free dimension within < 1 cell of the exact "
              "aspect-preserving value (or clamped to 1), fixed sizes byte-identical, rendering "
              "never changes the size setting, flow-widget rows() = rendered rows. "
              "Sampling, not proof.")
LEVEL_NOTE = ("Trusted: the oracle's reading of the documentation (DESIGN.md 4.C04; calibrated "
              "with 0 flags on 40k samples of the unchanged tree before the build), the terminal "
              "facts as the library itself reports them (get_cell_ratio / get_cell_size - their "
              "freshness is C15's business).")
TIERS = {
    "quick": {"runs": 7000, "max_ops": 30},
    "thorough": {"runs": 300000, "max_ops": 60, "wall_cap": 1500},
}
RULE = ("history = terminal profile (size 1-300 x 1-120, cell 1-40 px, pixels via ioctl / query "
        "/ none) + 1-3 images (block, kitty, iterm2; source 1-4000 px incl. extreme aspect "
        "ratios) + 8-max_ops operations; non-trivial = at least one environment change lies "
        "between a set and a read; distinct = hash of the operation list")
PROBES = ["env_change_between_set_and_read", "dynamic_size_followed_resize",
          "fixed_size_survived_resize", "auto_equals_original", "auto_equals_fit",
          "clamped_to_one", "relative_frame", "graphics_family", "text_family",
          "flow_widget_rows", "dynamic_cell_ratio", "render_kept_dynamic_size",
          "first_query_after_resize_times_out"]
COMPONENTS = {
    "real": ["BaseImage._valid_size / set_size / size setter / _renderer",
             "BlockImage / GraphicsImage pixel<->cell conversions", "term_image.get_cell_ratio / "
             "set_cell_ratio", "utils.get_cell_size / get_terminal_size",
             "UrwidImage.rows / render (flow)"],
    "stub": ["tty (winsize ioctl, XTWINOPS replies), termios, select, clock"],
}
ASSUMPTIONS = ["float arithmetic in the library stays within the < 1 cell tolerance of the exact "
               "rational value (true for all calibrated samples)"]

EPS = Fraction(1, 10 ** 9)


def rnd(x):
    """round-half-even of a Fraction (what Python's round() does)."""
    return round(x)


def near_half(x):
    f = x - (x.numerator // x.denominator)
    return abs(f - Fraction(1, 2)) < EPS


class Env:
    """Terminal facts as the library reports them right now."""

    def __init__(self, w):
        self.w = w

    def term(self):
        return (self.w.vt.cols, self.w.vt.rows)

    def cell(self):
        c = self.w.utils.get_cell_size()
        return tuple(c) if c else (1, 2)

    def ratio(self):
        return Fraction(self.w.ti.get_cell_ratio())


def run(ch, ctx, fault=None):
    profile = dw.gen_draw_profile(ch)
    rows, cols = ch.skewed("rows", 1, 120), ch.skewed("cols", 1, 300)
    with_widget = ch.bool("with_widget", 0.25)
    w = World(ctx, ch, fault, rows=rows, cols=cols, profile=profile,
              cell_px=(ch.skewed("cw", 1, 40), ch.skewed("chh", 1, 40)), reuse=True,
              with_widget=True)
    k, tty, vt = w.k, w.tty, w.vt
    k.log_seams = False
    pxmode = ch.pick("pxmode", ("ioctl", "query", "none"))
    tty.ioctl_pixels = pxmode == "ioctl"
    if pxmode == "none":
        profile.answers -= {"14t", "16t"}
    env = Env(w)
    slow_next = [False]

    def delay_fn(kind):
        if slow_next[0]:
            if kind == "da1":
                slow_next[0] = False
            return 250_000_000
        return 0

    tty.delay_fn = delay_fn
    key = []
    ctx.op("terminal %dx%d cell=%s pixels=%s profile=%s"
           % (cols, rows, vt.cell_px, pxmode, profile.name))
    with w:
        ti = w.ti
        from term_image import image as ti_image
        Size = ti_image.Size
        pname = profile.name.lower()
        styles = ["block", "block"]
        if pname in ("kitty", "konsole"):
            styles.append("kitty")
        if pname in ("wezterm", "iterm2", "konsole"):
            styles.append("iterm2")
        imgs = []
        for j in range(ch.int("n_img", 1, 3)):
            style = ch.pick("style", styles)
            cls = {"block": ti_image.BlockImage, "kitty": ti_image.KittyImage,
                   "iterm2": ti_image.ITerm2Image}[style]
            shape = ch.pick("shape", ("small", "any", "wide", "tall", "tiny"))
            if shape == "small":
                ow, oh = ch.int("ow", 1, 64), ch.int("oh", 1, 64)
            elif shape == "any":
                ow, oh = ch.int("ow", 1, 4000), ch.int("oh", 1, 4000)
            elif shape == "wide":
                ow, oh = ch.int("ow", 500, 4000), ch.int("oh", 1, 8)
            elif shape == "tall":
                ow, oh = ch.int("ow", 1, 8), ch.int("oh", 500, 4000)
            else:
                ow, oh = 1, 1
            from PIL import Image
            pil = Image.new("L", (ow, oh))
            try:
                im = cls(pil)
            except Exception as e:
                raise Violation("construction_failed", {"exc": repr(e), "style": style}, "init")
            imgs.append({"im": im, "style": style, "text": style == "block", "ow": ow, "oh": oh,
                         "model": ("dynamic", "FIT"), "set_at": None})
            ctx.op("image %d: %s, source %dx%d" % (j, style, ow, oh))
            ctx.probe("text_family" if style == "block" else "graphics_family")
        env_changes = [0]

        # ---------------------------------------------------------------- the oracle

        def frame_cells(frame):
            t = env.term()
            return tuple(f if f > 0 else max(td + f, 1) for f, td in zip(frame, t))

        def check_size(d, mode, result, frame, desc, given=None):
            """mode in {FIT, AUTO, ORIGINAL, FIT_TO_WIDTH, width, height}."""
            wv, hv = result
            ow, oh = d["ow"], d["oh"]
            info = {"op": desc, "image": "%s %dx%d" % (d["style"], ow, oh), "mode": mode,
                    "result": result, "frame": frame, "terminal": env.term()}
            check(isinstance(wv, int) and isinstance(hv, int) and wv >= 1 and hv >= 1,
                  "size_not_a_pair_of_positive_integers", info, "size")
            cw, chh = env.cell()
            if d["text"]:
                r = env.ratio()
                pr = 2 * r
                px_c, px_l = 1, 2
            else:
                r = Fraction(cw, chh)
                pr = Fraction(1)
                px_c, px_l = cw, chh
            info.update(cell=(cw, chh), ratio=float(r))
            Fc, Fl = frame_cells(frame)
            fw, fh = Fc * px_c, Fl * px_l
            h_star_from_w = lambda W: Fraction(W) * r * oh / ow        # noqa: E731
            w_star_from_h = lambda H: Fraction(H) * ow / (oh * r)      # noqa: E731

            def close(v, star):
                if v == 1 and star < 1:
                    ctx.probe("clamped_to_one")
                    return True
                return abs(v - star) < 1

            if mode in ("FIT", "AUTO"):
                check(wv <= Fc and hv <= Fl, "automatic_size_exceeds_frame",
                      dict(info, frame_cells=(Fc, Fl)), "size")
            if mode == "FIT":
                check(wv == Fc or hv == Fl, "fit_does_not_touch_the_frame",
                      dict(info, frame_cells=(Fc, Fl)), "size")
                ok = (wv == Fc and close(hv, h_star_from_w(wv))) or \
                     (hv == Fl and close(wv, w_star_from_h(hv)))
                check(ok, "free_dimension_off_by_a_cell_or_more",
                      dict(info, frame_cells=(Fc, Fl), h_star=float(h_star_from_w(wv)),
                           w_star=float(w_star_from_h(hv))), "size")
            elif mode == "FIT_TO_WIDTH":
                check(wv == Fc, "fit_to_width_has_not_the_frame_width",
                      dict(info, frame_cells=(Fc, Fl)), "size")
                check(close(hv, h_star_from_w(wv)), "free_dimension_off_by_a_cell_or_more",
                      dict(info, h_star=float(h_star_from_w(wv))), "size")
            elif mode == "ORIGINAL":
                w_star = Fraction(ow, px_c)
                h_star = Fraction(oh) * pr / px_l
                check(close(wv, w_star) and close(hv, h_star),
                      "original_size_off_by_a_cell_or_more",
                      dict(info, w_star=float(w_star), h_star=float(h_star)), "size")
            elif mode == "width":
                check(wv == given, "given_width_not_kept", dict(info, given=given), "size")
                check(close(hv, h_star_from_w(wv)), "free_dimension_off_by_a_cell_or_more",
                      dict(info, h_star=float(h_star_from_w(wv))), "size")
            elif mode == "height":
                check(hv == given, "given_height_not_kept", dict(info, given=given), "size")
                check(close(wv, w_star_from_h(hv)), "free_dimension_off_by_a_cell_or_more",
                      dict(info, w_star=float(w_star_from_h(hv))), "size")
            if mode == "AUTO":
                hx = Fraction(oh) * pr
                fits = ow <= fw and rnd(hx) <= fh
                amb = near_half(hx) and (rnd(hx) in (fh, fh + 1))
                try:
                    twin = type(d["im"])(d["im"]._source)
                    twin.set_size(Size.ORIGINAL, frame_size=frame)
                    ori = tuple(twin.size)
                    twin.set_size(Size.FIT, frame_size=frame)
                    fit = tuple(twin.size)
                except Exception as e:
                    raise Violation("sizing_raised", dict(info, exc=repr(e)), "size")
                if amb:
                    ok = result in (ori, fit)
                else:
                    ok = result == (ori if fits else fit)
                    ctx.probe("auto_equals_original" if fits else "auto_equals_fit")
                check(ok, "auto_is_neither_original_when_it_fits_nor_fit",
                      dict(info, original=ori, fit=fit, source_fits=fits), "size")
                # and whichever it is must obey that mode's rules
                check_size(d, "ORIGINAL" if result == ori and fits else "FIT", result, frame,
                           desc + " [as %s]" % ("ORIGINAL" if result == ori and fits else "FIT"))

        def check_models(desc):
            for d in imgs:
                kind, val = d["model"]
                got = d["im"].size
                if kind == "fixed":
                    check(got == val and isinstance(got, tuple), "fixed_size_changed",
                          {"after": desc, "size": repr(got), "expected": val,
                           "image": d["style"]}, "history")
                else:
                    check(got is getattr(Size, val), "dynamic_size_setting_changed",
                          {"after": desc, "size": repr(got), "expected": val}, "history")

        n_ops = ch.int("n_ops", 8, ctx.cfg["max_ops"])
        try:
            for i in range(n_ops):
                op = ch.weighted("op", [
                    (6, "set_size"), (3, "assign"), (2, "prop"), (4, "resize"), (2, "cellpx"),
                    (3, "ratio"), (1, "swap"), (6, "read"), (2, "render"),
                    (2 if with_widget else 0, "widget"),
                ])
                d = ch.pick("img", imgs)
                im = d["im"]
                desc = op
                if op == "set_size":
                    what = ch.pick("what", ("FIT", "AUTO", "ORIGINAL", "FIT_TO_WIDTH", "width",
                                            "height", "both"))
                    fk = ch.pick("frame", ("default", "abs", "rel", "mixed"))
                    t = env.term()
                    if fk == "default":
                        frame = (0, -2)
                    elif fk == "abs":
                        frame = (ch.skewed("fw", 1, 320), ch.skewed("fh", 1, 130))
                    elif fk == "rel":
                        frame = (-ch.int("frw", 0, t[0] + 2), -ch.int("frh", 0, t[1] + 2))
                        ctx.probe("relative_frame")
                    else:
                        frame = (ch.skewed("fw", 1, 320), -ch.int("frh", 0, t[1] + 2))
                    if what == "both":
                        wv, hv = ch.skewed("sw", 1, 400), ch.skewed("sh", 1, 200)
                        im.set_size(wv, hv)
                        desc = "image.set_size(%d, %d)" % (wv, hv)
                        check(im.size == (wv, hv), "manual_size_not_stored_unchanged",
                              {"got": repr(im.size), "expected": (wv, hv)}, "size")
                    elif what in ("width", "height"):
                        v = ch.skewed("dim", 1, 300)
                        im.set_size(**{what: v}, frame_size=frame)
                        desc = "image.set_size(%s=%d, frame_size=%s)" % (what, v, frame)
                        check_size(d, what, tuple(im.size), frame, desc, given=v)
                    else:
                        im.set_size(getattr(Size, what), frame_size=frame) if ch.bool("asw", 0.5) \
                            else im.set_size(height=getattr(Size, what), frame_size=frame)
                        desc = "image.set_size(Size.%s, frame_size=%s)" % (what, frame)
                        check_size(d, what, tuple(im.size), frame, desc)
                    d["model"] = ("fixed", tuple(im.size))
                    d["set_at"] = env_changes[0]
                elif op == "assign":
                    if ch.bool("tuple", 0.4):
                        v = (ch.skewed("sw", 1, 400), ch.skewed("sh", 1, 200))
                        im.size = v
                        d["model"] = ("fixed", v)
                        desc = "image.size = %s" % (v,)
                    else:
                        m = ch.pick("member", ("FIT", "AUTO", "ORIGINAL", "FIT_TO_WIDTH"))
                        im.size = getattr(Size, m)
                        d["model"] = ("dynamic", m)
                        desc = "image.size = Size.%s" % m
                    d["set_at"] = env_changes[0]
                elif op == "prop":
                    which = ch.pick("which", ("width", "height"))
                    v = ch.skewed("dim", 1, 300)
                    setattr(im, which, v)
                    desc = "image.%s = %d" % (which, v)
                    check_size(d, which, tuple(im.size), (0, -2), desc, given=v)
                    d["model"] = ("fixed", tuple(im.size))
                    d["set_at"] = env_changes[0]
                elif op == "resize":
                    c2, r2 = ch.skewed("cols2", 1, 300), ch.skewed("rows2", 1, 120)
                    vt.resize(r2, c2)
                    desc = "terminal resized to %dx%d" % (c2, r2)
                    env_changes[0] += 1
                    if pxmode == "query" and ch.bool("busy_terminal", 0.3):
                        # the terminal is busy re-flowing: its answer to the NEXT query comes
                        # after the timeout, later queries are answered at once.  Whatever the
                        # library makes of that, every size it computes must be consistent
                        # with the cell size it reports
                        slow_next[0] = True
                        desc += " (next query answered late)"
                        ctx.probe("first_query_after_resize_times_out")
                elif op == "cellpx":
                    vt.cell_px = (ch.skewed("cw2", 1, 40), ch.skewed("chh2", 1, 40))
                    if ch.bool("and_resize", 0.5):
                        vt.resize(ch.skewed("rows2", 1, 120), ch.skewed("cols2", 1, 300))
                    desc = "cell size now %s px (terminal %dx%d)" % (vt.cell_px, vt.cols, vt.rows)
                    env_changes[0] += 1
                elif op == "ratio":
                    kind = ch.pick("rk", ("float", "float", "FIXED", "DYNAMIC"))
                    try:
                        if kind == "float":
                            v = ch.pick("rv", (0.5, 0.43, 1.0, 0.2, 2.0, 0.333))
                            ti.set_cell_ratio(v)
                            desc = "set_cell_ratio(%s)" % v
                        else:
                            ti.set_cell_ratio(getattr(ti.AutoCellRatio, kind))
                            desc = "set_cell_ratio(%s)" % kind
                            if kind == "DYNAMIC":
                                ctx.probe("dynamic_cell_ratio")
                    except ti.exceptions.TermImageError:
                        desc += " -> unsupported"
                    env_changes[0] += 1
                elif op == "swap":
                    (ti.enable_win_size_swap if ch.bool("on", 0.5) else ti.disable_win_size_swap)()
                    desc = "toggle win size swap -> %s" % w.utils._swap_win_size
                    env_changes[0] += 1
                elif op == "read":
                    kind, val = d["model"]
                    rs = tuple(im.rendered_size)
                    desc = "read image.size=%r rendered_size=%s" % (im.size, rs)
                    if d["set_at"] is not None and env_changes[0] > d["set_at"]:
                        ctx.probe("env_change_between_set_and_read")
                        ctx.nontrivial = True
                        ctx.probe("fixed_size_survived_resize" if kind == "fixed"
                                  else "dynamic_size_followed_resize")
                    if kind == "fixed":
                        check(rs == val, "rendered_size_of_fixed_size_differs",
                              {"rendered_size": rs, "size": val}, "read")
                    else:
                        check_size(d, val, rs, (0, -2), desc)
                        check((im.rendered_width, im.rendered_height) == rs,
                              "rendered_width_height_disagree_with_rendered_size",
                              {"w": im.rendered_width, "h": im.rendered_height, "size": rs}, "read")
                elif op == "render":
                    rs = tuple(im.rendered_size)
                    if rs[0] * rs[1] > 4000 or (not d["text"] and rs[0] * rs[1] > 600):
                        continue
                    before = im.size
                    try:
                        out = str(im)
                    except Exception as e:
                        raise Violation("render_raised", {"exc": repr(e), "size": rs}, "render")
                    desc = "str(image) at %s" % (rs,)
                    check(im.size == before and type(im.size) is type(before),
                          "rendering_changed_the_size_setting",
                          {"before": repr(before), "after": repr(im.size)}, "render")
                    check(out.count("\n") == rs[1] - 1, "render_line_count_differs_from_rendered_height",
                          {"lines": out.count("\n") + 1, "rendered_size": rs}, "render")
                    if isinstance(before, Size):
                        ctx.probe("render_kept_dynamic_size")
                else:
                    from term_image.widget import UrwidImage
                    from PIL import Image
                    wi = type(im)(Image.new("L", (d["ow"], d["oh"])))
                    upscale = ch.bool("upscale", 0.5)
                    uw = UrwidImage(wi, upscale=upscale)
                    maxcol = ch.skewed("maxcol", 1, min(120, max(1, vt.cols)))
                    announced = uw.rows((maxcol,))
                    if announced * maxcol > 3000:
                        continue
                    canv = uw.render((maxcol,))
                    desc = "UrwidImage(upscale=%s).rows((%d,)) = %d, rendered rows = %d" % (
                        upscale, maxcol, announced, canv.rows())
                    ctx.probe("flow_widget_rows")
                    check(announced == canv.rows(), "flow_widget_rows_differ_from_rendered_rows",
                          {"announced": announced, "rendered": canv.rows(), "maxcol": maxcol,
                           "source": (d["ow"], d["oh"]), "upscale": upscale}, "widget")
                ctx.op(desc)
                key.append(desc)
                check_models(desc)
        except Violation:
            raise
        except Exception as e:  # the library raised where the documentation promises a size
            raise Violation("sizing_operation_raised",
                            {"exc": repr(e), "after": key[-3:], "op": desc}, "op")
        ctx.key(key)
        ctx.log("trace", key)
