"""C09 - frame caching is invisible except for speed."""
from __future__ import annotations

import io

from props.c08 import gen_padmodel
from simkit import images, simrenderable
from simkit.core import Violation, check
from simkit.world import World

ID = "C09"
LEVEL = "exploration"
TECHNIQUE = ("deterministic simulation: lock-step pair of iterators (caching on / off) driven by "
             "the same seeded operation history incl. terminal resizes and an injected render "
             "failure; relational oracle + render-count oracle")
LEVEL_TEXT = ("Two iterators over twin sources, one with caching enabled and one without, are "
              "driven in lock-step by the same seeded history (the C08 operation machine for "
              "RenderIterator; next/seek/image-size change/terminal resize/close for "
              "ImageIterator over Block, Kitty and ITerm2 images). Every yielded frame and every "
              "raised exception type must be pairwise equal; on the cached render iterator no "
              "frame number is rendered twice while (size, duration, args) are unchanged. A "
              "separate configuration makes the first render of a seeded frame fail on both "
              "sides. Sampling, not proof.")
LEVEL_NOTE = ("Trusted: SimRenderable (output is a function of what it is handed), PIL decoding "
              "determinism. No reference model is needed: the uncached iterator is the oracle.")
TIERS = {
    "quick": {"runs": 16000, "max_ops": 40},
    "thorough": {"runs": 600000, "max_ops": 80, "wall_cap": 1500},
}
RULE = ("history as in C08 applied to a (cached, uncached) pair, plus image-iterator histories "
        "(next, seek, set_size / size=, terminal resize under a dynamic size, close) over "
        "generated animations for each style the terminal profile supports; non-trivial = some "
        "frame number is visited at least twice with a setting change in between; distinct = "
        "hash of the operation list")
PROBES = ["frame_revisited_after_setting_change", "cache_hit_observed", "render_fault_both_sides",
          "image_iterator", "image_size_changed_mid_iteration", "dynamic_size_resize",
          "cache_int_equal_frame_count", "infinite_loops", "equal_setting_set_again",
          "animation_through_draw", "draw_revisits_frames", "file_sourced_image_iterator"]
COMPONENTS = {
    "real": ["RenderIterator (cache entries keyed by size/duration/args, padding after cache)",
             "ImageIterator._animate two-phase cache", "BaseImage._renderer / _render_image",
             "padding.*", "PIL"],
    "stub": ["terminal size + queries (SimTTY/VTerm)", "concrete renderable (SimRenderable)"],
}
ASSUMPTIONS = ["the uncached iterator is correct (that is C08 / C11's business); this check is "
               "relational"]


def run(ch, ctx, fault=None):
    if ch.bool("image_iter", 0.3):
        return run_image(ch, ctx, fault)
    if ch.bool("via_draw", 0.15):
        return run_draw(ch, ctx, fault)
    return run_render(ch, ctx, fault)


def run_draw(ch, ctx, fault):
    """The same question asked through draw(): an animation drawn with caching requested
    writes exactly the bytes of one drawn without, and renders no frame twice - also when it
    loops for ever and ends by Ctrl-C."""
    ctx.probe("animation_through_draw")
    rows, cols = ch.int("rows", 6, 16), ch.int("cols", 8, 30)
    n = ch.int("n", 2, 5)
    loops = ch.pick("loops", (2, 3, -1, -1, -4))
    size = (ch.int("w", 1, 4), ch.int("h", 1, 3))
    dur = ch.int("dur", 1, 30)
    cache_on = ch.pick("cache", (True, n, n + 1, 100))
    stop_after = ch.int("stop_after", n, 3 * n + 1)      # sleeps before Ctrl-C (infinite loops)
    ctx.op("draw(): frames=%d size=%s loops=%d cache=%r vs False%s"
           % (n, size, loops, cache_on, "; Ctrl-C after %d frames" % stop_after if loops < 0 else ""))
    ctx.key("draw", n, loops, size, cache_on, stop_after)
    outputs, logs = [], []
    for cache in (cache_on, False):
        w = World(ctx, ch, fault, rows=rows, cols=cols, reuse=True, stdout_tty=True,
                  buffered=False)
        k, out = w.k, w.out
        k.log_seams = False
        hooks = simrenderable.Hooks(k)
        with w:
            SimR = simrenderable.make(w.ti.renderable, hooks)
            r = SimR(n, dur, w.ti.geometry.Size(*size))
            sleeps = [0]

            def on_sleep(secs, sleeps=sleeps):
                sleeps[0] += 1
                if loops < 0 and sleeps[0] >= stop_after:
                    raise KeyboardInterrupt

            k.on_sleep = on_sleep
            try:
                r.draw(loops=loops, cache=cache, check_size=False)
            except Exception as e:
                raise Violation("draw_raised", {"exc": repr(e), "cache": cache}, "draw")
            finally:
                k.on_sleep = None
            out.drain()
            outputs.append(bytes(out.sink))
            logs.append([fno for (_t, fno, _s, _c, _d, _f) in hooks.render_log])
    check(outputs[0] == outputs[1], "cached_animation_output_differs_from_uncached",
          {"cached_len": len(outputs[0]), "uncached_len": len(outputs[1])}, "draw")
    twice = sorted(f for f in set(logs[0]) if logs[0].count(f) > 1)
    if len(logs[1]) > n:
        ctx.probe("draw_revisits_frames")
        ctx.nontrivial = True
    check(not twice, "cached_frame_rendered_twice",
          {"frames": twice, "renders": logs[0], "loops": loops, "cache": cache_on}, "draw")


def run_render(ch, ctx, fault):
    rows, cols = ch.int("rows", 1, 12), ch.int("cols", 1, 24)
    w = World(ctx, ch, fault, rows=rows, cols=cols, reuse=True)
    w.k.log_seams = False
    vt = w.vt
    with w:
        ti = w.ti
        R = ti.renderable
        from term_image import padding as padding_mod
        from term_image.render import RenderIterator
        hooks = [simrenderable.Hooks(None), simrenderable.Hooks(None)]
        classes = [simrenderable.make(R, h) for h in hooks]
        n = ch.int("n", 2, 6)
        loops = ch.pick("loops", (-1, 2, 3, 4))
        if loops < 0:
            ctx.probe("infinite_loops")
        size = (ch.int("w", 1, 4), ch.int("h", 1, 3))
        dynamic = ch.bool("dynamic", 0.3)
        dur0 = R.FrameDuration.DYNAMIC if dynamic else ch.int("dur", 1, 50)
        cache_on = ch.pick("cache", (True, n, n + 1, 100))
        if cache_on == n:
            ctx.probe("cache_int_equal_frame_count")
        cache_off = ch.pick("nocache", (False, max(1, n - 1)))
        if cache_off == n:
            cache_off = False
        pm = gen_padmodel(ch, (cols, rows))
        fail_frame = ch.int("fail_frame", 0, n - 1) if ch.bool("render_fault", 0.15) else None
        its, rs = [], []
        for side, (SimR, cache) in enumerate(zip(classes, (cache_on, cache_off))):
            r = SimR(n, dur0, ti.geometry.Size(*size))
            rs.append(r)
            its.append(RenderIterator(r, None, pm.build(padding_mod), loops, cache))
        if fail_frame is not None:
            for side, SimR in enumerate(classes):
                orig = SimR._render_
                state = {"failed": False}

                def failing(self, rd, ra, orig=orig, state=state):
                    if not state["failed"] and rd[R.Renderable].frame_offset == fail_frame:
                        state["failed"] = True
                        raise RuntimeError("injected render failure")
                    return orig(self, rd, ra)
                SimR._render_ = failing
        ctx.op("terminal %dx%d; frames=%d size=%s duration=%s loops=%d cache=%r vs %r padding=%s "
               "fail_first_render_of_frame=%s"
               % (cols, rows, n, size, dur0, loops, cache_on, cache_off, pm.describe(), fail_frame))
        term = [cols, rows]
        epoch = 0
        # the settings a frame's cache entry depends on, by VALUE: setting an equal size,
        # duration or argument set again leaves "those settings unchanged"
        settings = {"size": tuple(size), "dur": "DYNAMIC" if dynamic else dur0, "args": ("#", 0)}
        rendered_under = {}     # frame number -> settings of its last render (cached side)
        seen_log = 0
        visited = {}
        n_ops = ch.int("n_ops", 4, ctx.cfg["max_ops"])
        key = []

        def current():
            return (settings["size"], settings["dur"], settings["args"])

        def both(fn, desc, site):
            outs = []
            for it, SimR in zip(its, classes):
                try:
                    outs.append(("ok", fn(it, SimR)))
                except StopIteration:
                    outs.append(("stop", None))
                except Exception as e:
                    outs.append(("exc", type(e).__name__))
            ctx.op("%s -> cached:%s uncached:%s" % (desc, outs[0][0] if outs[0][0] != "exc"
                                                     else outs[0][1],
                                                     outs[1][0] if outs[1][0] != "exc"
                                                     else outs[1][1]))
            a, b = outs
            if a[0] == "ok" and b[0] == "ok" and a[1] is not None:
                fa, fb = tuple(a[1]), tuple(b[1])
                check(fa == fb, "cached_frame_differs_from_uncached",
                      {"op": desc, "cached": repr(fa)[:300], "uncached": repr(fb)[:300]}, site)
            else:
                check((a[0], a[1] if a[0] == "exc" else None)
                      == (b[0], b[1] if b[0] == "exc" else None),
                      "cached_outcome_differs_from_uncached",
                      {"op": desc, "cached": a[:2], "uncached": b[:2]}, site)
            key.append((desc, a[0]))
            return a

        for i in range(n_ops):
            op = ch.weighted("op", [(14, "next"), (6, "seek"), (2, "duration"), (3, "padding"),
                                    (2, "args"), (2, "size"), (1, "close"), (2, "resize")])
            if op == "next":
                res = both(lambda it, S: next(it), "next", "next")
                if res[0] == "ok":
                    f = res[1].number
                    if f in visited and visited[f] != epoch:
                        ctx.probe("frame_revisited_after_setting_change")
                        ctx.nontrivial = True
                    visited[f] = epoch
                if fail_frame is not None and res[0] == "exc":
                    ctx.probe("render_fault_both_sides")
                # render-count oracle on the cached side
                log = hooks[0].render_log
                for (_tok, fno, _sz, _c, _d, _fin) in log[seen_log:]:
                    check(rendered_under.get(fno) != current(), "cached_frame_rendered_twice",
                          {"frame": fno, "step": i, "settings": repr(current())}, "render_count")
                    rendered_under[fno] = current()
                if res[0] == "ok" and len(log) == seen_log:
                    ctx.probe("cache_hit_observed")
                seen_log = len(log)
            elif op == "seek":
                wh = ch.int("whence", 0, 2)
                off = ch.int("off", -(n + 2), n + 2)
                both(lambda it, S: it.seek(off, R.Seek(wh)), "seek(%d,%d)" % (off, wh), "seek")
            elif op == "duration":
                d = ch.pick("newdur", (5, 20, 0, "DYNAMIC", 33))
                arg = R.FrameDuration.DYNAMIC if d == "DYNAMIC" else d
                res = both(lambda it, S: it.set_frame_duration(arg), "set_frame_duration(%s)" % d,
                           "set")
                if res[0] == "ok":
                    if settings["dur"] != d:
                        epoch += 1
                    else:
                        ctx.probe("equal_setting_set_again")
                    settings["dur"] = d
            elif op == "padding":
                pm2 = gen_padmodel(ch, tuple(term))
                both(lambda it, S: it.set_padding(pm2.build(padding_mod)),
                     "set_padding(%s)" % pm2.describe(), "set")
            elif op == "args":
                c2 = ch.pick("char2", "#@%")
                sh2 = ch.pick("shift2", (0, 0, -1, -2, 1))
                res = both(lambda it, S: it.set_render_args(+S.SimArgs(c2, sh2)),
                           "set_render_args(char=%r, shift=%d)" % (c2, sh2), "set")
                if res[0] == "ok":
                    if settings["args"] != (c2, sh2):
                        epoch += 1
                    else:
                        ctx.probe("equal_setting_set_again")
                    settings["args"] = (c2, sh2)
            elif op == "size":
                s2 = (ch.int("w2", 1, 5), ch.int("h2", 1, 3))
                res = both(lambda it, S: it.set_render_size(ti.geometry.Size(*s2)),
                           "set_render_size(%s)" % (s2,), "set")
                if res[0] == "ok":
                    if settings["size"] != s2:
                        epoch += 1
                    else:
                        ctx.probe("equal_setting_set_again")
                    settings["size"] = s2
            elif op == "close":
                both(lambda it, S: it.close(), "close()", "close")
            else:
                term[0], term[1] = ch.int("cols2", 1, 24), ch.int("rows2", 1, 12)
                vt.resize(term[1], term[0])
                ctx.op("terminal resized to %dx%d" % tuple(term))
                key.append(("resize", tuple(term)))
        ctx.key(key)
        ctx.log("trace", key)
        for it in its:
            it.close()


def run_image(ch, ctx, fault):
    from simkit import drawworld as dw
    ctx.probe("image_iterator")
    profile = dw.gen_draw_profile(ch)
    rows, cols = ch.int("rows", 3, 20), ch.int("cols", 4, 40)
    w = World(ctx, ch, fault, rows=rows, cols=cols, profile=profile,
              cell_px=(ch.int("cw", 2, 8), ch.int("chh", 4, 16)), reuse=True)
    w.k.log_seams = False
    vt = w.vt
    with w:
        from term_image import image as ti_image
        pname = profile.name.lower()
        styles = ["block"]
        if pname in ("kitty", "konsole"):
            styles.append("kitty")
        if pname in ("wezterm", "iterm2", "konsole"):
            styles.append("iterm2")
        style = ch.pick("style", styles)
        cls = {"block": ti_image.BlockImage, "kitty": ti_image.KittyImage,
               "iterm2": ti_image.ITerm2Image}[style]
        n = ch.int("n", 2, 5)
        data = images.anim_bytes(n, ch.int("sw", 1, 20), ch.int("sh", 1, 20))
        from PIL import Image
        dyn = ch.bool("dynamic_size", 0.5)
        imgs = []
        tmp_path = None
        if ch.bool("file_source", 0.4):
            # images opened from a file path: the iterator works on a file it opened itself
            tmp_path = images.write_tmp(data, ".gif")
            ctx.probe("file_sourced_image_iterator")
            iw_ = None if dyn else ch.int("iw", 1, min(8, cols))
            for _ in range(2):
                imgs.append(cls.from_file(tmp_path) if dyn else cls.from_file(tmp_path, width=iw_))
        else:
            pils = [Image.open(io.BytesIO(data)) for _ in range(2)]
            for p in pils:
                im = cls(p) if dyn else cls(p, width=ch.int("iw", 1, min(8, cols)))
                imgs.append(im)
        if dyn:
            # second image must make the same choice draws: size stays Size.FIT
            pass
        else:
            imgs[1].size = imgs[0].size
        spec = ch.pick("spec", ("", "1.1", "<10.^4", ">6._3#", "|.-2##"))
        if style != "block":
            spec += ch.pick("sspec", ("", "+L", "+W"))
        repeat = ch.pick("repeat", (2, 3, -1))
        cached = ch.pick("cached", (True, n, 100))
        try:
            its = [ti_image.ImageIterator(imgs[0], repeat, spec, cached),
                   ti_image.ImageIterator(imgs[1], repeat, spec, False)]
        except Exception as e:
            raise Violation("image_iterator_constructor_raised", {"exc": repr(e), "spec": spec},
                            "image.init")
        ctx.op("terminal %dx%d cell=%s profile=%s; %sImage frames=%d size=%s; "
               "ImageIterator(repeat=%d, spec=%r, cached=%r vs False)"
               % (cols, rows, vt.cell_px, profile.name, style, n, imgs[0].size, repeat, spec,
                  cached))
        key = []
        visited = {}
        epoch = 0
        started = False
        n_ops = ch.int("n_ops", 4, min(25, ctx.cfg["max_ops"]))
        for i in range(n_ops):
            op = ch.weighted("op", [(14, "next"), (4, "seek"), (3, "setsize"), (2, "resize"),
                                    (1, "close")])
            outs = []
            if op == "next":
                for it in its:
                    try:
                        outs.append(("ok", next(it)))
                    except StopIteration:
                        outs.append(("stop", None))
                    except Exception as e:
                        outs.append(("exc", type(e).__name__))
                started = True
                desc = "next"
                if outs[0][0] == "ok":
                    f = imgs[0].tell()
                    if f in visited and visited[f] != epoch:
                        ctx.probe("frame_revisited_after_setting_change")
                        ctx.nontrivial = True
                    visited[f] = epoch
            elif op == "seek":
                pos = ch.int("pos", -1, n)
                desc = "seek(%d)" % pos
                for it in its:
                    try:
                        outs.append(("ok", it.seek(pos)))
                    except Exception as e:
                        outs.append(("exc", type(e).__name__))
            elif op == "setsize":
                kind = ch.pick("szkind", ("width", "height", "enum", "both"))
                if kind == "width":
                    kw = {"width": ch.int("nw", 1, min(10, cols))}
                elif kind == "height":
                    kw = {"height": ch.int("nh", 1, min(6, rows))}
                elif kind == "both":
                    kw = {"width": ch.int("nw", 1, min(10, cols)),
                          "height": ch.int("nh", 1, min(6, rows))}
                else:
                    kw = None
                    member = ch.pick("member", ("FIT", "AUTO", "ORIGINAL", "FIT_TO_WIDTH"))
                desc = "set_size(%s)" % (kw if kw else member)
                for im in imgs:
                    try:
                        if kw:
                            im.set_size(**kw)
                        else:
                            im.size = getattr(ti_image.Size, member)
                        outs.append(("ok", None))
                    except Exception as e:
                        outs.append(("exc", type(e).__name__))
                epoch += 1
                ctx.probe("image_size_changed_mid_iteration")
            elif op == "resize":
                c2, r2 = ch.int("cols2", 4, 40), ch.int("rows2", 3, 20)
                vt.resize(r2, c2)
                desc = "terminal resized to %dx%d" % (c2, r2)
                outs = [("ok", None), ("ok", None)]
                epoch += 1
                if any(isinstance(im.size, ti_image.Size) for im in imgs):
                    ctx.probe("dynamic_size_resize")
            else:
                desc = "close()"
                for it in its:
                    it.close()
                    outs.append(("ok", None))
            a, b = outs
            ctx.op("%s -> cached:%s uncached:%s" % (desc, a[0] if a[0] != "exc" else a[1],
                                                     b[0] if b[0] != "exc" else b[1]))
            key.append((desc, a[0]))
            if a[0] == "ok" and b[0] == "ok" and isinstance(a[1], str):
                check(a[1] == b[1], "cached_frame_differs_from_uncached",
                      {"op": desc, "step": i, "cached": a[1][:200], "uncached": b[1][:200],
                       "style": style, "spec": spec}, "image.next")
            else:
                check((a[0], a[1] if a[0] == "exc" else None)
                      == (b[0], b[1] if b[0] == "exc" else None),
                      "cached_outcome_differs_from_uncached",
                      {"op": desc, "cached": a[:2], "uncached": repr(b[:2])[:200]}, "image." + op)
        ctx.key(style, spec, repeat, cached, key)
        ctx.log("trace", style, spec, key)
        for it in its:
            it.close()
        for im in imgs:
            im.close()
        if tmp_path:
            import os
            try:
                os.remove(tmp_path)
            except OSError:
                pass
