"""C13 - terminal attributes are always put back exactly as found."""
from __future__ import annotations

import re
import termios

from simkit import simrenderable
from simkit.core import Violation, check
from simkit.kernel import NS
from simkit.models import gen_profile
from simkit.world import World

ID = "C13"
LEVEL = "fault_enumeration"
TECHNIQUE = ("deterministic simulation with fault enumeration: simulated termios/tty; "
             "KeyboardInterrupt or error injected at every system-call seam of every "
             "operation, attributes compared field by field")
LEVEL_TEXT = ("For each sampled scenario (seeded initial attribute set, terminal profile, reply "
              "schedule, <= 6 operations) the fault-free run counts every seam call, then the "
              "scenario is re-run once per (seam kind, k-th call, action) for EVERY k: "
              "KeyboardInterrupt before/after the call's effect and the error that call can "
              "raise. After every operation - on return and on every raise - tcgetattr must "
              "equal the attributes found on entry, cc bytes included. Exhaustive over fault "
              "positions per scenario; scenarios are sampled.")
LEVEL_NOTE = ("Trusted: SimTTY's termios model (CPython's tcgetattr/tcsetattr representation "
              "rules, TCSAFLUSH). Faults are single and transient and never pre-empt the effect "
              "of the restoring tcsetattr itself; every other call - draw()'s own clean-up "
              "writes and the caller's render-data finalizer included - is a fault position. "
              "Signals are modelled as exceptions at seam boundaries.")
TIERS = {
    "quick": {"runs": 320, "max_ops": 4},
    "thorough": {"runs": 9000, "max_ops": 6, "wall_cap": 1500},
}
EXHAUSTIVE_INNER = True
RULE = ("scenario = seeded initial termios attributes (canonical/raw, echo, ISIG, VMIN, VTIME) x "
        "terminal profile x reply schedule x <= max_ops operations from {query_terminal, "
        "read_tty(timeout None/0/>0/<0, min, echo), read_tty_all, write_tty, get_cell_size "
        "(query path), get_fg_bg_colors, get_terminal_name_version, Renderable.draw still / "
        "animated with echo suppressed}; every scenario is run fault-free and then once per "
        "(seam kind, k, action) for all k; non-trivial = the fault fired while the attributes "
        "differed from the entry attributes; distinct = hash of (scenario, fault)")
PROBES = ["fault_while_attrs_modified", "fault_in_nested_read", "predicate_raised",
          "timeout_path", "blocking_read_min", "infinite_timeout_read", "draw_animated_echo_off",
          "canonical_entry", "raw_entry", "echo_read", "read_nested_inside_read",
          "draw_from_a_worker_thread"]
COMPONENTS = {
    "real": ["term_image.utils.query_terminal/read_tty/read_tty_all/write_tty/get_cell_size/"
             "get_fg_bg_colors/get_terminal_name_version", "Renderable.draw/_animate_/"
             "_init_render_", "RenderIterator"],
    "stub": ["termios (tcgetattr/tcsetattr/tcdrain)", "tty device, select, os.read/os.write",
             "clocks + sleep (virtual)", "stdout stream (SimStdout)", "terminal emulator (VTerm)"],
}
ASSUMPTIONS = [
    "a signal is delivered at a system-call boundary (before the call's effect or right after it)",
    "one transient fault per run; the restoring tcsetattr call itself is never pre-empted",
]

KINDS_ERR = {
    "tty.tcgetattr": "termios.error", "tty.tcsetattr": "termios.error", "tty.write": "OSError",
    "tty.tcdrain": "termios.error", "tty.tcflush": "termios.error", "tty.select": "EINTR",
    "tty.read": "OSError",
    "tty.ioctl": None, "tty.get_size": None, "clock": None, "predicate": "ValueError",
    "out.write": "OSError", "out.flush": "OSError", "sleep": None, "render": "RuntimeError",
    "finalize": "RuntimeError",
}


def gen_attrs(ch):
    t = termios
    cc = [0] * 32
    cc[t.VINTR] = 3
    cc[t.VEOF] = 4
    cc[t.VERASE] = 0x7F
    cc[t.VMIN] = ch.pick("vmin", (1, 0, 1, 5, 255))
    cc[t.VTIME] = ch.pick("vtime", (0, 0, 1, 100, 255))
    lflag = t.IEXTEN | t.ECHOE | t.ECHOK
    if ch.bool("icanon", 0.6):
        lflag |= t.ICANON
    if ch.bool("echo", 0.6):
        lflag |= t.ECHO
    if ch.bool("isig", 0.8):
        lflag |= t.ISIG
    oflag = t.OPOST | t.ONLCR
    iflag = t.ICRNL | (t.IXON if ch.bool("ixon", 0.5) else 0)
    return [iflag, oflag, t.CS8 | t.CREAD, lflag, t.B38400, t.B38400, cc]


def run(ch, ctx, fault=None):
    profile = gen_profile(ch)
    if ch.bool("mute", 0.12):
        profile.answers = set()
    else:
        profile.answers.add("decrqm")
    rows, cols = ch.int("rows", 4, 30), ch.int("cols", 8, 60)
    w = World(ctx, ch, fault, rows=rows, cols=cols, profile=profile,
              cell_px=(ch.int("cw", 1, 20), ch.int("chh", 1, 30)), reuse=True)
    k, tty, vt, out = w.k, w.tty, w.vt, w.out
    tty.attrs = gen_attrs(ch)
    tty.ioctl_pixels = False
    entry = tty.mark_entry()
    ctx.probe("canonical_entry" if tty.canonical() else "raw_entry")
    dmode = ch.pick("delaymode", ("zero", "uniform", "uniform"))
    tty.delay_fn = (lambda kind: 0) if dmode == "zero" else \
        (lambda kind: ch.int("delay", 0, 60_000_000))
    hooks = simrenderable.Hooks(k)
    hooks.finalize_seam = True
    sites = []
    fired_info = {}

    cur_op = [""]

    def on_fire(f):
        fired_info["modified"] = tty.attrs != entry
        if f["kind"] == "predicate":
            ctx.probe("predicate_raised")
        if cur_op[0] in ("query", "cell", "colors", "namever") and f["kind"] in (
                "tty.read", "tty.select", "clock", "predicate"):
            ctx.probe("fault_in_nested_read")
        if tty.attrs != entry:
            ctx.probe("fault_while_attrs_modified")
            ctx.nontrivial = True

    k.on_fire = on_fire
    ctx.key("attrs", entry, profile.describe(), dmode, fault)
    ctx.op("entry attrs lflag=%#x ICANON=%s ECHO=%s VMIN=%d VTIME=%d; profile=%s %s answers=%s"
           % (entry[3], tty.canonical(), tty.echo(), entry[6][termios.VMIN],
              entry[6][termios.VTIME], profile.name, profile.version, sorted(profile.answers)))
    if fault:
        ctx.op("fault plan: %r" % (fault,))

    def predicate(fn):
        def more(s):
            k.seam("predicate")
            return fn(s)
        return more

    with w:
        ti, utils = w.ti, w.utils
        SimR = simrenderable.make(w.ti.renderable, hooks)
        from term_image.padding import AlignedPadding, ExactPadding
        n_ops = ch.int("n_ops", 1, ctx.cfg["max_ops"])
        decrqm = [0]
        for i in range(n_ops):
            op = ch.weighted("op", [
                (4, "query"), (5, "read"), (1, "read_all"), (1, "write"), (2, "cell"),
                (2, "colors"), (2, "namever"), (2, "draw_still"), (3, "draw_anim"),
            ])
            cur_op[0] = op
            before = dict(k.counts)
            w0 = len(out.write_log)
            desc = op
            call = None
            if op == "query":
                decrqm[0] += 1
                n = 7000 + decrqm[0]
                tmo = ch.pick("qt", (None, 0.05, 0.2))
                req = b"\x1b[?%d$p\x1b[c" % n
                desc = "query_terminal(DECRQM %d + DA1, timeout=%s)" % (n, tmo)
                call = lambda: utils.query_terminal(  # noqa: E731
                    req, predicate(lambda s: not s.endswith(b"c")), tmo)
                if not profile.answers:
                    ctx.probe("timeout_path")
            elif op == "read":
                tmo = ch.pick("rt", (None, 0, 0.05, -1, 0.3))
                mn = ch.pick("min", (0, 0, 1, 3))
                echo = ch.bool("recho", 0.3)
                nbytes = ch.int("nbytes", 0, 6)
                need = 0
                if tmo is not None and mn > 0:
                    need = mn
                    ctx.probe("blocking_read_min")
                if tmo is not None and tmo < 0:
                    need = max(need, nbytes, 1)
                    ctx.probe("infinite_timeout_read")
                total = max(nbytes, need)
                data = bytes(97 + (j % 26) for j in range(total))
                if total:
                    d = ch.int("indelay", 0, 40_000_000)
                    k.after(d, (lambda dd: lambda: tty.input_arrives(dd))(data), "input")
                stop_at = total if (tmo is not None and tmo < 0) else ch.int("stop", 1, 8)
                more = predicate(lambda s, n=stop_at: len(s) < n)
                if tmo is not None and tmo >= 0 and mn == 0 and ch.bool("reentrant", 0.25):
                    # the caller's predicate talks to the terminal itself (the lock is
                    # re-entrant): a direct read nested inside a direct read
                    nested = [False]

                    def more(s, n=stop_at, inner=more):
                        if not nested[0]:
                            nested[0] = True
                            ctx.probe("read_nested_inside_read")
                            utils.read_tty_all()
                        return inner(s)
                if echo:
                    ctx.probe("echo_read")
                desc = "read_tty(more=len<%d, timeout=%s, min=%d, echo=%s) with %d bytes arriving" \
                    % (stop_at, tmo, mn, echo, total)
                call = lambda: utils.read_tty(more, tmo, mn, echo=echo)  # noqa: E731
            elif op == "read_all":
                if ch.bool("pre", 0.5):
                    tty.input_arrives(b"zz")
                call = utils.read_tty_all
            elif op == "write":
                call = lambda: utils.write_tty(b"\x1b[0m")  # noqa: E731
            elif op == "cell":
                if utils._swap_win_size:
                    ti.disable_win_size_swap()
                else:
                    ti.enable_win_size_swap()
                call = utils.get_cell_size
            elif op == "colors":
                utils.get_fg_bg_colors._invalidate_cache()
                call = utils.get_fg_bg_colors
            elif op == "namever":
                utils.get_terminal_name_version._invalidate_cache()
                call = utils.get_terminal_name_version
            else:
                anim = op == "draw_anim"
                size = ti.geometry.Size(ch.int("rw", 1, min(6, cols)), ch.int("rh", 1, min(3, rows)))
                nfr = ch.int("nfr", 2, 3) if anim else 1
                r = SimR(nfr, 10 * ch.int("dur", 1, 5), size)
                echo_in = ch.bool("echo_input", 0.25)
                hide = ch.bool("hide", 0.7)
                loops = ch.int("loops", 1, 2)
                pad = ExactPadding() if ch.bool("nopad", 0.5) else AlignedPadding(
                    min(cols, size.width + 2), min(rows, size.height + 1))
                if anim and not echo_in:
                    ctx.probe("draw_animated_echo_off")
                desc = "%s.draw(size=%s frames=%d loops=%d echo_input=%s hide_cursor=%s pad=%r)" % (
                    "SimRenderable", tuple(size), nfr, loops, echo_in, hide, pad)
                call = lambda: r.draw(None, pad, loops=loops, cache=False,  # noqa: E731
                                      echo_input=echo_in, hide_cursor=hide)
            if op.startswith("draw") and ch.bool("from_a_worker_thread", 0.2):
                # the application draws from a worker thread (the only one touching the
                # renderable): nothing about restoring the terminal depends on the main thread
                ctx.probe("draw_from_a_worker_thread")
                inner = call

                def call(inner=inner):
                    import threading
                    box = []

                    def run_it():
                        try:
                            inner()
                        except BaseException as e:  # noqa: B902
                            box.append(e)
                    th = threading.Thread(target=run_it)
                    th.start()
                    th.join()
                    if box:
                        raise box[0]
            fired_before = k.fault_done
            exc = None
            try:
                call()
            except Violation:
                raise
            except BaseException as e:  # noqa: B902 - KeyboardInterrupt is a fault here
                exc = e
            fault_here = k.fault_done and not fired_before
            ctx.op("%s -> %s" % (desc, "raised %r" % (exc,) if exc is not None else "returned"))
            ctx.log("op", op, type(exc).__name__ if exc is not None else None)
            ctx.key(op, desc)
            if exc is not None and not fault_here and not k.fault_done:
                raise Violation("unexpected_exception_without_fault",
                                {"op": desc, "exc": repr(exc)}, op)
            now_attrs = tty.attrs
            if now_attrs != entry:
                diff = [j for j in range(6) if now_attrs[j] != entry[j]]
                ccd = [j for j in range(32) if now_attrs[6][j] != entry[6][j]]
                raise Violation(
                    "terminal_attributes_not_restored",
                    {"op": desc, "after": "raise %r" % (exc,) if exc is not None else "return",
                     "fields_differ": diff, "cc_differ": ccd,
                     "lflag_entry": entry[3], "lflag_now": now_attrs[3],
                     "fault": fault}, op)
            # fault sites of this op (used by faults())
            if fault is None:
                for kind, n in k.counts.items():
                    n0 = before.get(kind, 0)
                    if n > n0 and kind in KINDS_ERR:
                        # every call is a fault position, draw()'s own clean-up writes and the
                        # caller's render-data finalizer included: the statement says "at any
                        # point" (only the restoring tcsetattr itself is never pre-empted, see
                        # FakeTermios)
                        hi = n
                        for kk in range(n0 + 1, hi + 1):
                            sites.append((kind, kk))
        ctx.extra["sites"] = sites


def faults(ctx, ch):
    out = []
    for kind, kk in ctx.extra.get("sites", []):
        out.append({"kind": kind, "k": kk, "when": "before", "exc": "KeyboardInterrupt"})
        if kind not in ("predicate", "clock"):
            out.append({"kind": kind, "k": kk, "when": "after", "exc": "KeyboardInterrupt"})
        err = KINDS_ERR.get(kind)
        if err:
            out.append({"kind": kind, "k": kk, "when": "before", "exc": err})
        if kk % 3 == 0 and kind != "clock":
            # any other signal whose handler raises (SIGTERM -> sys.exit()): not an Exception
            # subclass, not KeyboardInterrupt either
            out.append({"kind": kind, "k": kk, "when": "before", "exc": "SystemExit"})
        if kind in ("out.write", "out.flush") and kk % 2:
            # the stream shuts itself down when its device fails (the terminal's own
            # descriptor stays open): everything draw() writes afterwards fails as well
            out.append({"kind": kind, "k": kk, "when": "before", "exc": err, "closes": True})
    return out
