"""C14 - terminal access is serialized across threads and processes."""
from __future__ import annotations

import re

from simkit import procs
from simkit.core import Violation, check
from simkit.vterm import Profile
from simkit.world import World, src_dir

ID = "C14"
LEVEL = "exploration"
TECHNIQUE = ("deterministic simulation: baton-scheduled real threads inside simulated processes "
             "(per-process copies of term_image.utils, simulated fork/spawn, simulated RLock / "
             "SemLock / Array), seeded schedules incl. line-level pre-emption; overlap and "
             "own-reply oracle")
LEVEL_TEXT = ("Seeded (program, start method, schedule) worlds: 1-4 threads per process run "
              "seeded programs of lock_tty-decorated probes (nested up to depth 3), real "
              "query_terminal calls with a unique DECRQM number each, write_tty / read_tty / "
              "get_cell_size, and Process.start() of children (and grandchildren) from tasks that "
              "are not inside a synchronized call. Exactly one task runs at a time and the "
              "scheduler (uniform, sticky or priority-based with seeded change points) decides "
              "at every seam call - and on half of the runs at every source line of term_image - "
              "who runs next. Checked: no two synchronized bodies ever overlap, every query "
              "returns exactly its own reply, nothing is left in the tty input queue, nested "
              "calls never block on themselves and every task finishes. A fifth of the worlds let "
              "the terminal answer some queries only after the caller's timeout: there a reply "
              "that was already waiting in the input queue when a later query_terminal call "
              "started must never be part of what that call returns. Other worlds: an urwid "
              "screen whose redraws, writes, flushes (stdout buffered in half of them) and "
              "keyboard-input polls run next to queries (nothing reaches the terminal inside "
              "another task's synchronized update or while another task owns the terminal "
              "lock; a poll never sees somebody else's reply); terminal writes cut short (the "
              "bytes of one write_tty call stay contiguous on the wire); a failing lock "
              "creation or Process.start at the hand-over; every process importing the library "
              "after another package wrapped Process.start. Sampling of schedules, not proof.")
LEVEL_NOTE = ("Trusted: the kernel's lock models (threading.RLock and multiprocessing.RLock "
              "semantics: re-entrant per (process, thread), shared across processes by "
              "inheritance), the fork model (module globals copied, per-process memo tables "
              "fresh), VTerm's DECRQM responder. multiprocessing and OS scheduling are stubs; "
              "the library's locking logic, wrappers and import-time patching are real. "
              "Lock-order inversions between the tty lock and the cell-size / memo locks are "
              "outside the statement and kept out of the workloads (DESIGN.md 4.C14).")
TIERS = {
    "quick": {"runs": 3500},
    "thorough": {"runs": 200000, "wall_cap": 1500},
}
RULE = ("world = seeded program tree (<= 3 processes x <= 4 tasks x <= 8 steps) x start method "
        "(fork / spawn / forkserver) x scheduling policy x reply delays; non-trivial = a context "
        "switch happened while some task held or awaited the terminal lock; distinct = hash of "
        "(program, schedule prefix)")
PROBES = ["waiter_parked_on_thread_lock_during_swap", "two_first_starts_racing",
          "child_acquires_while_parent_thread_holds", "grandchild_started",
          "nested_reentrant_call", "line_level_preemption", "contended_acquire",
          "query_while_other_task_waits", "fork", "spawn", "screen_redraw_step",
          "reply_later_than_timeout", "stale_reply_waiting_in_queue", "foreign_reply_seen_by_query",
          "first_start_with_queries_disabled", "no_active_terminal",
          "process_lock_creation_failed", "synchronized_call_raised", "screen_write_step",
          "screen_input_poll_step", "process_start_wrapped_by_someone_else_before_import",
          "write_cut_short", "terminal_without_echo_at_entry",
          "interpreter_without_shared_arrays", "synchronized_call_lasting_seconds",
          "root_process_is_itself_a_subprocess",
          "process_start_failed_after_hand_over"]
COMPONENTS = {
    "real": ["term_image.utils.lock_tty / query_terminal / read_tty / write_tty / get_cell_size",
             "_process_start_wrapper / _process_run_wrapper and the import-time Process patching "
             "(executed once per simulated process)", "threads (real, baton-passed)"],
    "stub": ["multiprocessing (process creation, RLock/SemLock, Array)", "OS thread scheduling",
             "tty, termios, select, clock", "terminal emulator responder"],
}
ASSUMPTIONS = [
    "starts are never issued from inside a synchronized call (documented as unsupported)",
    "memoized getters are warmed before concurrency; synchronized bodies never call "
    "get_cell_size (lock-order inversions are outside the statement)",
]

DA1 = b"\x1b[?62;4;22c"


class ProbeFailure(Exception):
    """raised by a synchronized probe body on purpose"""


class Monitor:
    """Overlap oracle for synchronized bodies."""

    def __init__(self, k, ctx):
        self.k = k
        self.ctx = ctx
        self.holder = None
        self.depth = 0
        self.seq = 0

    def enter(self, name):
        cur = self.k.current
        me = cur.tid if cur is not None else "inline"
        self.seq += 1
        if self.holder is not None and self.holder != me:
            raise Violation("two_synchronized_sections_overlap",
                            {"entering": (me, name), "inside": self.holder, "seq": self.seq},
                            "overlap")
        self.holder = me
        self.depth += 1
        self.ctx.log("enter", me, name, self.seq)

    def exit(self, name):
        cur = self.k.current
        me = cur.tid if cur is not None else "inline"
        self.seq += 1
        self.depth -= 1
        if self.depth == 0:
            self.holder = None
        self.ctx.log("exit", me, name, self.seq)


def gen_program(ch, depth, budget, mode="getters"):
    """A task program: list of steps.  ``mode`` keeps the two documented lock-order inversions
    out of a world: uncached calls of memoized getters (memo lock -> tty lock) and urwid screen
    redraws (tty lock -> memo lock inside _ti_clear_images) are never mixed."""
    steps = []
    for _ in range(ch.int("n_steps", 1, 6)):
        kinds = [(4, "probe"), (4, "query"), (1, "write"), (2, "read"), (1, "cell")]
        if mode == "late":
            # replies later than the timeout: plain reads and getters would legitimately pick
            # up stray bytes, so only attributable queries run in these worlds
            kinds = [(3, "probe"), (4, "query"), (2, "late_query"), (1, "write")]
        elif mode == "notty":
            # no active terminal at all: the functions are synchronized all the same (they
            # guard whatever the application does under the lock)
            kinds = [(1, "probe")]
        elif mode == "noquery":
            # queries are disabled before the first Process.start(): the functions
            # synchronized on the terminal lock stay synchronized all the same
            kinds = [(5, "probe"), (2, "write"), (2, "read")]
        elif mode == "getters":
            kinds += [(2, "colors"), (1, "namever")]
        elif depth == 0:
            kinds.append((3, "screen"))
            kinds.append((2, "screen_write"))
            kinds.append((2, "screen_input"))
        if depth < 2 and budget[0] > 0:
            kinds.append((4, "start"))
        kind = ch.weighted("step", kinds)
        if kind == "probe" and ch.bool("slow", 0.12):
            # a synchronized call that takes its time (a blocking read, a slow render under
            # the lock): seconds, not microseconds - whoever needs the lock waits that long
            steps.append(("probe_slow", ch.pick("hold_s", (1.2, 2.5, 4.0))))
        elif kind == "probe":
            if ch.bool("raises", 0.15):
                # a synchronized function that fails: the caller survives and goes on
                steps.append(("probe_raise", ch.int("nest", 1, 2)))
            else:
                steps.append(("probe", ch.int("nest", 1, 3)))
        elif kind == "start":
            budget[0] -= 1
            nthreads = ch.int("child_threads", 1, 2)
            steps.append(("start", [gen_program(ch, depth + 1, budget, mode)
                                    for _ in range(nthreads)]))
        elif kind == "write" and ch.bool("write_cut_short", 0.4):
            # the terminal takes only part of the data at first (a signal arrived, the output
            # queue was full): write() returns a short count
            steps.append(("write_short",))
        else:
            steps.append((kind,))
    return steps


def describe(prog, indent=0):
    out = []
    for st in prog:
        if st[0] == "start":
            out.append(" " * indent + "start child with %d thread(s):" % len(st[1]))
            for i, p in enumerate(st[1]):
                out.append(" " * indent + "  thread %d:" % i)
                out.extend(describe(p, indent + 4))
        else:
            out.append(" " * indent + " ".join(map(str, st)))
    return out


def run(ch, ctx, fault=None):
    # in some worlds the application itself runs inside a multiprocessing child of something
    # that never loaded the library (a task runner): the processes it starts are synchronized
    # with it all the same
    import multiprocessing.process as mpp
    real_parent = mpp._parent_process
    if ch.bool("root_is_a_subprocess", 0.15):
        mpp._parent_process = object()
        ctx.probe("root_process_is_itself_a_subprocess")
    try:
        return _run(ch, ctx, fault)
    finally:
        mpp._parent_process = real_parent


def _run(ch, ctx, fault=None):
    profile = Profile(name="XTerm", version="370",
                      answers={"da1", "decrqm", "xtversion", "14t", "16t", "osc10", "osc11"})
    # (a buffered stdout: what the screen writes reaches the terminal at its flush())
    w = World(ctx, ch, fault, rows=24, cols=80, profile=profile, cell_px=(8, 16), reuse=True,
              with_widget=True, prefill=False, buffered=ch.bool("stdout_buffered", 0.5))
    k, tty, vt, out = w.k, w.tty, w.vt, w.out
    k.log_seams = False
    tty.ioctl_pixels = ch.bool("ioctl_px", 0.7)
    method = ch.pick("method", ("fork", "spawn", "forkserver"))
    k.policy = ch.pick("policy", ("random", "sticky", "sticky", "pct"))
    line_level = ch.bool("line_level", 0.5)
    k.step_cap = 60000
    dmax = ch.pick("dmax", (0, 2_000_000, 20_000_000))
    tty.delay_fn = (lambda kind: ch.int("delay", 0, dmax)) if dmax else (lambda kind: 0)
    budget = [ch.int("procs", 0, 3)]
    n_root = ch.int("root_threads", 1, 4)
    mode = ch.pick("mode", ("getters", "getters", "screen", "screen", "late", "noquery",
                            "notty"))
    if mode == "notty":
        budget[0] = 0      # (without a terminal the library does not patch Process at all)
    # a transient failure to create the process-shared lock at the first Process.start()
    if fault is None and budget[0] and ch.bool("lock_creation_fault", 0.15):
        fault = {"kind": "mp.rlock", "k": 1, "when": "before", "exc": "OSError"}
        k.fault = fault
        ctx.log("fault", fault)
    elif fault is None and budget[0] and ch.bool("start_failure", 0.3):
        # ... or the start itself fails after the lock hand-over (fork: EAGAIN; spawn: an
        # unpicklable argument): the caller survives, other starts and children go on
        fault = {"kind": "proc.start", "k": ch.int("failing_start", 1, 2), "when": "before",
                 "exc": "OSError"}
        k.fault = fault
        ctx.log("fault", fault)
    programs = [gen_program(ch, 0, budget, mode) for _ in range(n_root)]
    if k.policy == "pct":
        k.pct_points = tuple(sorted(ch.int("pctp", 1, 400) for _ in range(ch.int("pctd", 1, 3))))
    ctx.op("start method=%s policy=%s line_level=%s reply_delay<=%dns ioctl_px=%s mode=%s"
           % (method, k.policy, line_level, dmax, tty.ioctl_pixels, mode))
    for i, p in enumerate(programs):
        ctx.op("root thread %d:" % i)
        for line in describe(p, 2):
            ctx.op(line)
    ctx.probe(method if method == "fork" else "spawn")
    mon = Monitor(k, ctx)
    qn = [7000]
    results = []
    started_children = [0]
    first_start_window = {"active": 0}
    # "late" worlds: global order of reply arrivals and query starts
    tick = [0]
    arrived = {}          # DECRQM number -> tick at which its reply entered the tty input queue
    late_numbers = set()
    cur_late = [False]
    decrqm_re = re.compile(rb"\x1b\[\?(\d+);0\$y")

    if budget[0] and fault is None and ch.bool("no_sharedctypes", 0.12):
        # no shared arrays on this interpreter (ctypes missing): the cell-size cache cannot be
        # shared - the terminal lock still is
        k.no_sharedctypes = True
        ctx.probe("interpreter_without_shared_arrays")
    if mode == "late" and ch.bool("echo_off_at_entry", 0.5):
        # the application already runs the terminal without echo (a TUI): a query still has to
        # discard whatever stale input is waiting before it sends its request
        import termios as real_termios
        tty.attrs[3] &= ~(real_termios.ECHO | real_termios.ICANON)
        ctx.probe("terminal_without_echo_at_entry")
    # some other package wrapped Process.start (functools.wraps) before the library was
    # imported - in every process of the tree: the library's hooks go on top all the same
    prewrapped = mode in ("getters", "late") and ch.bool("process_start_prewrapped", 0.15)
    with w:
        pw = procs.ProcWorld(w, prewrapped)
        u0 = pw.p0.utils
        if prewrapped:
            ctx.probe("process_start_wrapped_by_someone_else_before_import")
        # warm the memoized getters before concurrency starts (as the docs advise)
        u0.get_terminal_name_version()
        u0.get_fg_bg_colors()
        if mode == "noquery":
            w.ti.disable_queries()
            ctx.probe("first_start_with_queries_disabled")
        if mode == "notty":
            u0._tty_fd = -1
            ctx.probe("no_active_terminal")

        # the urwid screen of process 0: its draw_screen / write / flush are synchronized on
        # the terminal lock, so nobody else may touch the terminal inside its synchronized-
        # update bracket
        import urwid
        from term_image.widget import UrwidImageScreen

        class FakeIn:
            def fileno(self):
                return 1002

            def isatty(self):
                return False

        screen = UrwidImageScreen(input=FakeIn(), output=out)
        screen.start()

        def sim_raw_input(self):
            # urwid's own (unsynchronized) non-blocking read of the terminal's input queue
            k.yield_point("screen-input")
            data = bytes(tty.inq)
            del tty.inq[:]
            tty.bytes_read += len(data)
            k.yield_point("screen-input2")
            return list(data)

        real_raw_input = urwid.raw_display.Screen.get_available_raw_input
        urwid.raw_display.Screen.get_available_raw_input = sim_raw_input
        out.drain()
        sync_owner = [None]
        draws = [0]

        def tid():
            cur = k.current
            return cur.tid if cur is not None else "inline"

        orig_deliver = out._deliver

        def deliver(data):
            # the screen's flush() is synchronized: its bytes never reach the terminal while
            # another task owns the terminal lock (is in the middle of a query, say)
            owner = getattr(u0._tty_lock, "owner", None)
            if owner not in (None, tid()):
                raise Violation("screen_output_flushed_while_another_task_owns_the_terminal",
                                {"writer": tid(), "lock_owner": owner, "data": bytes(data)[:30]},
                                "screen")
            was = vt.synced
            if was and sync_owner[0] not in (None, tid()):
                raise Violation("screen_output_interleaved_inside_synchronized_update",
                                {"writer": tid(), "owner": sync_owner[0]}, "screen")
            orig_deliver(data)
            if vt.synced and not was:
                sync_owner[0] = tid()
            if not vt.synced:
                sync_owner[0] = None

        out._deliver = deliver

        direct_writers = {}      # task -> its write_tty() call has bytes on the wire already
        short_for = {}           # task -> writes left that the terminal cuts short

        def short_write(data):
            me = tid()
            if short_for.get(me) and len(data) > 1:
                short_for[me] -= 1
                return len(data) // 2
            return len(data)

        tty.short_write = short_write

        def tty_write_hook(data):
            me = tid()
            for other, begun in direct_writers.items():
                if begun and other != me:
                    direct_writers[other] = "foreign bytes followed"
            if me in direct_writers:
                # (a call that goes on writing after somebody else's bytes went out had let go
                # of the terminal in the middle of its data)
                if direct_writers[me] == "foreign bytes followed":
                    raise Violation("bytes_of_one_write_tty_call_not_contiguous_on_the_wire",
                                    {"writer": me, "data": data[:30]}, "write")
                direct_writers[me] = True
            if vt.synced and sync_owner[0] not in (None, tid()):
                raise Violation("terminal_written_during_another_tasks_synchronized_update",
                                {"writer": tid(), "owner": sync_owner[0], "data": data[:30]},
                                "screen")

        tty.write_hook = tty_write_hook

        if mode == "late":
            def reply_filter(kind, data):
                m = decrqm_re.search(data)
                if m:
                    cur_late[0] = int(m.group(1)) in late_numbers
                return data

            def delay_fn(kind):
                if cur_late[0]:
                    return ch.int("late_delay", 30_000_000, 150_000_000)
                return ch.int("delay", 0, dmax) if dmax else 0

            def input_arrives(data, orig=tty.input_arrives):
                tick[0] += 1
                for num in decrqm_re.findall(bytes(data)):
                    arrived[int(num)] = tick[0]
                orig(data)

            tty.reply_filter = reply_filter
            tty.delay_fn = delay_fn
            tty.input_arrives = input_arrives

        def judge_late(label, n, got, start):
            """A reply that had already arrived when this call started belongs to an earlier
            caller (who gave up on it); the terminal lock's owner discards such bytes before it
            sends its own request, so they can never be part of what it returns."""
            for num in decrqm_re.findall(got or b""):
                num = int(num)
                if num != n:
                    ctx.probe("foreign_reply_seen_by_query")
                    check(arrived.get(num, 0) > start,
                          "reply_of_an_earlier_query_delivered_to_a_later_caller",
                          {"task": label, "query": n, "foreign_reply": num, "got": got,
                           "foreign_arrived_at": arrived.get(num), "call_started_at": start},
                          "late")

        def make_probe(utils, name):
            def body(depth, fail=False, hold=0):
                mon.enter(name)
                try:
                    k.yield_point("probe-body")
                    if hold:
                        k.sleep(hold)
                    if depth > 1:
                        ctx.probe("nested_reentrant_call")
                        probe(depth - 1, fail)
                    k.yield_point("probe-body2")
                    if fail and depth <= 1:
                        raise ProbeFailure()
                finally:
                    mon.exit(name)
            probe = utils.lock_tty(body)
            return probe

        def run_program(prog, proc, label):
            utils = proc.utils
            probe = make_probe(utils, label)
            for st in prog:
                kind = st[0]
                if kind == "probe":
                    probe(st[1])
                elif kind == "probe_slow":
                    ctx.probe("synchronized_call_lasting_seconds")
                    probe(1, False, st[1])
                elif kind == "probe_raise":
                    try:
                        probe(st[1], True)
                    except ProbeFailure:
                        ctx.probe("synchronized_call_raised")
                elif kind == "query":
                    qn[0] += 1
                    n = qn[0]
                    req = b"\x1b[?%d$p\x1b[c" % n
                    want = b"\x1b[?%d;0$y" % n + DA1
                    if any(t.state == "blocked" and t.what.startswith(("lock", "mplock"))
                           for t in k.tasks):
                        ctx.probe("query_while_other_task_waits")
                    tick[0] += 1
                    start = tick[0]
                    got = utils.query_terminal(req, lambda s: not s.endswith(b"c"))
                    results.append((label, n, got == want))
                    if mode == "late":
                        judge_late(label, n, got, start)
                    else:
                        check(got == want, "query_did_not_receive_exactly_its_own_reply",
                              {"task": label, "query": n, "got": got, "expected": want}, "query")
                elif kind == "late_query":
                    # the terminal answers this one only after the caller has given up; the
                    # caller then idles until the stale reply sits in the input queue
                    qn[0] += 1
                    n = qn[0]
                    late_numbers.add(n)
                    req = b"\x1b[?%d$p\x1b[c" % n
                    tick[0] += 1
                    start = tick[0]
                    got = utils.query_terminal(req, lambda s: not s.endswith(b"c"), 0.002)
                    results.append((label, n, None))
                    judge_late(label, n, got, start)
                    ctx.probe("reply_later_than_timeout")
                    k.block_until(lambda n=n: n in arrived, k.now + 400_000_000, "late-reply")
                    if n in arrived:
                        ctx.probe("stale_reply_waiting_in_queue")
                elif kind in ("write", "write_short"):
                    # whatever the library does about a short write: what one write_tty() call
                    # puts on the wire is not interleaved with anybody else's bytes
                    me = tid()
                    if kind == "write_short":
                        ctx.probe("write_cut_short")
                        short_for[me] = 1
                    direct_writers[me] = False
                    try:
                        utils.write_tty(b"\x1b[0m\x1b[0m")
                    finally:
                        direct_writers.pop(me, None)
                        short_for.pop(me, None)
                elif kind == "read":
                    got = utils.read_tty()
                    check(got == b"", "reply_of_another_caller_was_stolen",
                          {"task": label, "got": got}, "read")
                elif kind == "cell":
                    utils.get_cell_size()
                elif kind == "screen":
                    draws[0] += 1
                    top = urwid.Pile([("pack", urwid.Text("draw %d by %s" % (draws[0], label))),
                                      urwid.SolidFill("abcdefgh"[draws[0] % 8])])
                    canvas = top.render((80, 24), focus=True)
                    ctx.probe("screen_redraw_step")
                    screen.draw_screen((80, 24), canvas)
                elif kind == "screen_input":
                    # the event loop polls for keyboard input through the screen (stdin is
                    # the same terminal): a synchronized call like any other, so it never
                    # sees the reply to somebody else's query
                    ctx.probe("screen_input_poll_step")
                    got = screen.get_available_raw_input()
                    check(not got, "reply_of_another_caller_was_stolen",
                          {"task": label, "got": bytes(got), "by": "screen input poll"}, "read")
                elif kind == "screen_write":
                    # another thread writes through the same screen object (a status line, a
                    # bell, clear_images(), ...)
                    ctx.probe("screen_write_step")
                    screen.write("\x1b[0m")
                    screen.flush()
                elif kind in ("colors", "namever"):
                    # first (uncached) call of a memoized getter: query + DA1 tail drain.
                    # Top-level only, so memo lock -> tty lock is the only order in play.
                    fn = utils.get_fg_bg_colors if kind == "colors" else \
                        utils.get_terminal_name_version
                    fn._invalidate_cache()
                    got = fn()
                    want = ((255, 255, 255), (0, 0, 0)) if kind == "colors" else ("xterm", "370")
                    check(got == want, "memoized_getter_did_not_receive_its_own_reply",
                          {"task": label, "function": kind, "got": repr(got)}, "getter")
                elif kind == "start":
                    progs = st[1]
                    started_children[0] += 1
                    if proc.pid != 0:
                        ctx.probe("grandchild_started")
                    if isinstance(utils._tty_lock, utils._rlock_type):
                        first_start_window["active"] += 1
                        if first_start_window["active"] > 1:
                            ctx.probe("two_first_starts_racing")
                        if utils._tty_lock.waiters:
                            ctx.probe("waiter_parked_on_thread_lock_during_swap")

                    def target(pw_, child, progs=progs, label=label):
                        ths = []
                        for j, p in enumerate(progs[1:]):
                            lab = "%s/c%d.t%d" % (label, child.pid, j + 1)
                            ths.append(pw_.spawn_thread(
                                (lambda p=p, lab=lab: run_program(p, child, lab)), lab))
                        if mon.holder is not None:
                            ctx.probe("child_acquires_while_parent_thread_holds")
                        run_program(progs[0], child, "%s/c%d.t0" % (label, child.pid))

                    fired0 = k.fault_done
                    try:
                        pw.start_process(target, method, "child-of-%s" % label)
                    except OSError:
                        # the injected lock-creation failure: the start fails loudly and no
                        # child exists (a child running without the shared lock would show
                        # up as an overlap)
                        if not (k.fault_done and not fired0):
                            raise
                        ctx.probe("process_lock_creation_failed" if fault["kind"] == "mp.rlock"
                                  else "process_start_failed_after_hand_over")
                    finally:
                        if first_start_window["active"]:
                            first_start_window["active"] -= 1

        if line_level:
            k.tracefunc = procs.make_tracer(k, src_dir())
            ctx.probe("line_level_preemption")
        for i, p in enumerate(programs):
            lab = "p0.t%d" % i
            t = k.spawn((lambda p=p, lab=lab: run_program(p, pw.p0, lab)), lab, 0)
            pw.current_proc[t.tid] = pw.p0
        try:
            k.run_tasks()
        finally:
            k.tracefunc = None
            tty.write_hook = None
            tty.short_write = None
            tty.reply_filter = None
            tty.__dict__.pop("input_arrives", None)
            out._deliver = orig_deliver
            urwid.raw_display.Screen.get_available_raw_input = real_raw_input
            try:
                # urwid installs process-wide signal handlers at start(); each screen remembers
                # the previous one, so a screen that is never stopped pins every earlier world
                screen.stop()
            except Exception:
                pass
        # every task finished?
        for t in k.tasks:
            if t.exc is not None:
                if isinstance(t.exc, Violation):
                    raise Violation(t.exc.invariant, t.exc.detail, t.exc.site)
                raise Violation("task_raised", {"task": t.name, "exc": repr(t.exc)}, "task")
        # deliver whatever is in flight, then the input queue must be empty
        if tty.last_reply_at > k.now:
            k.advance(tty.last_reply_at - k.now)
        if mode == "late":
            tty.inq.clear()      # stray late replies are expected here
        check(not tty.inq, "reply_bytes_left_in_tty_queue", {"left": bytes(tty.inq)}, "end")
        if k.contended:
            ctx.probe("contended_acquire")
            ctx.nontrivial = True
        ctx.key([describe(p) for p in programs], method, k.policy, k.sched_trace[:80])
        ctx.log("sched", k.sched_trace[:2000], k.switches, len(results))
        ctx.op("-> %d tasks, %d processes, %d context switches, %d contended acquires, %d queries"
               % (len(k.tasks), len(pw.procs), k.switches, k.contended, len(results)))
