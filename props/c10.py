"""C10 - render data is finalized exactly once and never used afterwards."""
from __future__ import annotations

import gc

from simkit import simrenderable
from simkit.core import Violation, check
from simkit.drawworld import PadModel
from simkit.world import World

ID = "C10"
LEVEL = "fault_enumeration"
TECHNIQUE = ("deterministic simulation with fault enumeration: seeded operation histories on "
             "renderables and iterators; an exception injected into the k-th frame render (every "
             "k), size-validation failures and interrupted draw writes; token-counted "
             "finalization oracle incl. garbage collection as a recorded operation")
LEVEL_TEXT = ("Each sampled history (str, render, draw still/animated fitting or too big, "
              "iterators via __iter__/constructor/_from_render_data_ with and without ownership, "
              "_init_render_ with caller-kept data, next (single and in runs across loop "
              "boundaries), seek, set_render_size/args/duration, close twice, finalize twice, drop "
              "reference + collect) is run fault-free and then once per (k-th render, exception "
              "type) for EVERY k and once per interrupted draw write. The instrumented renderable "
              "stamps a token into every RenderData it creates and counts finalizations per "
              "token: a completed operation / exhausted / closed / failed iterator must have "
              "count 1 at that moment, caller-owned data 0 until its owner finalizes it, nothing "
              "is rendered with finalized data, the data of an iterator that is still open has "
              "count 0, and at the end of the history (all references "
              "dropped and collected) every token has count exactly 1. Also injected, for every "
              "k: KeyboardInterrupt in the k-th render and a failure of the render class's own "
              "finalizer at its k-th call. Exhaustive over render indices per history; histories "
              "are sampled.")
LEVEL_NOTE = ("Trusted: SimRenderable's token bookkeeping (harness), CPython reference counting "
              "for the __del__ fallback (garbage collection is disabled inside a world and runs "
              "only at generated collect operations). The harness never keeps a RenderData "
              "alive except where it plays the owning caller.")
TIERS = {
    "quick": {"runs": 1000, "max_ops": 18},
    "thorough": {"runs": 90000, "max_ops": 25, "wall_cap": 1500},
}
EXHAUSTIVE_INNER = True
RULE = ("history = <= max_ops seeded operations over up to 3 renderables and 3 live iterators; "
        "faults = every k-th _render_ call x {RuntimeError, StopIteration, KeyboardInterrupt}, every k-th finalizer call x RuntimeError and every draw write "
        "x KeyboardInterrupt; non-trivial = the history contains a fault, an early close or a "
        "dropped reference; distinct = hash of (history, fault)")
PROBES = ["reentrant_close_during_render", "render_fault_in_first_animation_frame", "size_validation_failed_in_draw",
          "close_during_dummy_frame_state", "caller_owned_data_left_unfinalized",
          "finalized_by_garbage_collection", "stopiteration_from_definite_source",
          "double_close", "double_finalize", "interrupted_draw_write", "iterator_exhausted",
          "setting_changed_mid_iteration", "keyboardinterrupt_in_render", "finalizer_raised",
          "iterator_construction_rejected", "render_class_inheriting_its_data_namespace",
          "history_inside_an_exception_handler", "render_class_with_chaining_finalizer",
          "draw_with_incompatible_render_args"]
COMPONENTS = {
    "real": ["RenderData.finalize/__del__", "Renderable._init_render_/draw/render/__str__/"
             "__iter__/_animate_", "RenderIterator (__init__, _from_render_data_, __next__, "
             "close, __del__)"],
    "stub": ["concrete renderable with token instrumentation (SimRenderable)", "stdout, tty, "
             "clock (for draw)"],
}
ASSUMPTIONS = ["exceptions injected into _render_ are raised before the frame is produced",
               "CPython refcounting semantics for when __del__ runs"]


class Live:
    def __init__(self, it, token, owns, desc):
        self.it = it
        self.token = token
        self.owns = owns
        self.closed = False
        self.started = False
        self.interrupted = False   # a KeyboardInterrupt left next(): generator dead, not "closed"
        self.desc = desc


def run(ch, ctx, fault=None):
    if ch.bool("inside_exception_handler", 0.2):
        # the application does all of this while it is handling some exception of its own
        # (an error page rendered from an `except` block): nothing about who finalizes what
        # depends on that
        ctx.probe("history_inside_an_exception_handler")
        try:
            raise LookupError("the application is handling something else")
        except LookupError:
            return _run(ch, ctx, fault)
    return _run(ch, ctx, fault)


def _run(ch, ctx, fault=None):
    rows, cols = ch.int("rows", 2, 10), ch.int("cols", 4, 20)
    w = World(ctx, ch, fault, rows=rows, cols=cols, reuse=True)
    k, vt, out = w.k, w.vt, w.out
    k.log_seams = False
    hooks = simrenderable.Hooks(k)
    hooks.finalize_seam = True     # a render class's own finalizer may fail
    owned = {}       # token -> RenderData kept by the harness *as the owning caller*
    released = {}    # token -> iteration RenderData its owner has already finalized
    expect0 = set()  # tokens that must still be un-finalized (caller-owned, not yet released)
    with w:
        ti = w.ti
        R = ti.renderable
        from term_image import padding as padding_mod
        from term_image.render import FinalizedIteratorError, RenderIterator
        SimR = simrenderable.make(R, hooks)

        class SeamPadding(padding_mod.ExactPadding):
            __slots__ = ()

            def _get_exact_dimensions_(self, render_size):
                k.seam("padding")
                return super()._get_exact_dimensions_(render_size)

        class Derived(SimR):
            """inherits data namespace and finalizer; declares none of its own"""

        class Unrelated(R.Renderable):
            """a render class of its own: its render arguments fit none of the others"""

            def _get_render_size_(self):
                return ti.geometry.Size(1, 1)

            def _render_(self, render_data, render_args):
                raise NotImplementedError

        class UnrelatedArgs(R.ArgsNamespace, render_cls=Unrelated):
            x: int = 0

        class Styled(SimR):
            """a render class on top of another one, with a finalizer of its own that chains
            up as documented"""

            @classmethod
            def _finalize_render_data_(cls, render_data):
                super()._finalize_render_data_(render_data)

        rends = []
        for j in range(ch.int("n_rend", 1, 3)):
            SimR_ = SimR
            if ch.bool("derived_class", 0.4):
                SimR_ = Derived
                ctx.probe("render_class_inheriting_its_data_namespace")
                if ch.bool("own_finalizer", 0.5):
                    SimR_ = Styled
                    ctx.probe("render_class_with_chaining_finalizer")
            kind = ch.pick("rkind", ("still", "anim", "anim", "indef"))
            size = ti.geometry.Size(ch.int("w", 1, 3), ch.int("h", 1, 2))
            if kind == "still":
                rends.append(SimR_(1, 1, size))
            elif kind == "anim":
                rends.append(SimR_(ch.int("n", 2, 4), ch.int("dur", 1, 20), size))
            else:
                rends.append(SimR_(R.FrameCount.INDEFINITE, 5, size,
                                   stream_len=ch.int("sl", 0, 3)))
        ctx.op("renderables: %s" % [repr(r) for r in rends])
        if fault:
            ctx.op("fault: %r" % (fault,))
        live = []
        handed_over = []
        key = []
        n_ops = ch.int("n_ops", 3, ctx.cfg["max_ops"])

        op_state = {"op": "", "renders0": 0}

        def on_fire(f):
            if f["kind"] == "render" and op_state["op"] == "draw" and \
                    len(hooks.render_log) == op_state["renders0"]:
                ctx.probe("render_fault_in_first_animation_frame")

        k.on_fire = on_fire

        def counts(tok):
            return hooks.final_count.get(tok, 0)

        def new_tokens(t0):
            return list(range(t0 + 1, hooks.next_token + 1))

        def must_be_final(tok, when, site):
            check(counts(tok) == 1, "render_data_not_finalized_exactly_once",
                  {"token": tok, "count": counts(tok), "when": when, "fault": fault}, site)

        def iterator_closed_checks(lv, site):
            """after exhaustion, close or an error: the data is final *now*, control
            operations raise, next() stops (in that order: a later next() must not be what
            closes the iterator)."""
            if lv.owns:
                must_be_final(lv.token, "iterator closed", site)
            elif lv.token in expect0:
                check(counts(lv.token) == 0, "caller_owned_render_data_finalized",
                      {"token": lv.token, "count": counts(lv.token), "iterator": lv.desc}, site)
                ctx.probe("caller_owned_data_left_unfinalized")
            for name, fn in (("seek", lambda: lv.it.seek(0)),
                             ("set_frame_duration", lambda: lv.it.set_frame_duration(5)),
                             ("set_render_size", lambda: lv.it.set_render_size(
                                 ti.geometry.Size(1, 1)))):
                try:
                    fn()
                    got = None
                except FinalizedIteratorError:
                    got = "FinalizedIteratorError"
                except Exception as e:
                    got = type(e).__name__
                check(got == "FinalizedIteratorError", "control_op_on_finalized_iterator_accepted",
                      {"iterator": lv.desc, "op": name, "got": got, "fault": fault}, site)
            try:
                next(lv.it)
                got = "frame"
            except StopIteration:
                got = "stop"
            except Exception as e:
                got = type(e).__name__
            check(got == "stop", "closed_iterator_did_not_stop",
                  {"iterator": lv.desc, "got": got, "fault": fault}, site)

        for i in range(n_ops):
            op = ch.weighted("op", [
                (2, "str"), (2, "render"), (3, "draw"), (3, "iter"), (2, "from_data"),
                (1, "init_render_keep"), (2, "init_render_final"), (2, "from_finalized"),
                (6, "next"), (4, "next_many"), (1, "next_reentrant_close"), (3, "seek"),
                (3, "set"), (2, "close"), (1, "finalize"), (2, "drop"), (1, "collect"),
            ])
            t0 = hooks.next_token
            op_state["op"] = op
            op_state["renders0"] = len(hooks.render_log)
            fired0 = k.fault_done
            desc = op
            exc = None
            site = op
            r = ch.pick("r", rends)
            lv = None
            try:
                if op == "str":
                    desc = "str(%r)" % r
                    str(r)
                elif op == "render":
                    pad = padding_mod.ExactPadding(ch.int("pl", 0, 2), 0, 0, ch.int("pb", 0, 1))
                    desc = "%r.render(padding=%r)" % (r, pad)
                    r.render(None, pad)
                elif op == "draw":
                    too_big = ch.bool("too_big", 0.25)
                    animate = ch.bool("animate", 0.7)
                    if too_big:
                        vt.resize(1, 1)
                    pad = padding_mod.AlignedPadding(ch.int("pw", 1, 4), ch.int("ph", 1, 2))
                    desc = "%r.draw(animate=%s) on %dx%d terminal" % (r, animate, vt.cols, vt.rows)
                    dargs = None
                    if ch.bool("unrelated_args", 0.1):
                        dargs = +UnrelatedArgs(1)
                        desc += " with render arguments of an unrelated class"
                        ctx.probe("draw_with_incompatible_render_args")
                    try:
                        r.draw(dargs, pad, animate=animate, loops=ch.int("loops", 1, 2),
                               cache=ch.bool("cache", 0.5))
                    finally:
                        if too_big:
                            vt.resize(rows, cols)
                elif op == "iter" and (not r.animated or ch.bool("rejected", 0.15)):
                    # a construction the iterator itself rejects: nothing it may have set up by
                    # then is left un-finalized
                    if not r.animated:
                        bad = ("not animated", lambda: RenderIterator(r))
                    else:
                        bad = ch.pick("bad_ctor", (
                            ("loops=0", lambda: RenderIterator(r, loops=0)),
                            ("cache=0", lambda: RenderIterator(r, cache=0)),
                            ("cache=-3", lambda: RenderIterator(r, cache=-3)),
                            ("render arguments of an unrelated class",
                             lambda: RenderIterator(r, +UnrelatedArgs(1)))))
                    desc = "RenderIterator(%r) rejected: %s" % (r, bad[0])
                    ctx.probe("iterator_construction_rejected")
                    op = "iter_rejected"
                    bad[1]()
                    raise Violation("invalid_iterator_arguments_accepted", {"op": desc}, "iter")
                elif op == "iter":
                    if not r.animated:
                        continue
                    how = ch.pick("how", ("iter", "ctor"))
                    loops = ch.pick("loops", (1, 2, -1))
                    cache = ch.pick("cache", (False, True))
                    desc = "%s(%r, loops=%d, cache=%s)" % (how, r, loops, cache)
                    it = iter(r) if how == "iter" else RenderIterator(r, None,
                                                                      padding_mod.ExactPadding(),
                                                                      loops, cache)
                    toks = new_tokens(t0)
                    live.append(Live(it, toks[0], True, desc))
                    del it
                elif op == "from_data":
                    if not r.animated:
                        continue
                    fin = ch.bool("finalize", 0.5)
                    rd = r._get_render_data_(iteration=True)
                    tok = hooks.next_token
                    # the caller's padding object is caller code too: its size computation runs
                    # during the iterator's set-up and may fail there
                    pad = SeamPadding() if ch.bool("seam_padding", 0.5) \
                        else padding_mod.ExactPadding()
                    desc = "_from_render_data_(%r, %s, finalize=%s)" % (
                        r, type(pad).__name__, fin)
                    if not fin:
                        owned[tok] = rd
                        expect0.add(tok)
                    try:
                        it = RenderIterator._from_render_data_(
                            r, rd, None, pad, ch.pick("loops", (1, 2)), finalize=fin)
                    except BaseException:
                        if fin:
                            # the half-built iterator was to own the data: once it is gone the
                            # data is final, whether or not the caller still holds the object
                            handed_over.append((tok, rd))
                        raise
                    finally:
                        del rd
                    live.append(Live(it, tok, fin, desc))
                    del it
                elif op == "init_render_keep":
                    desc = "%r._init_render_(finalize=False) [caller keeps the data]" % r
                    (rd, _), _ = r._init_render_(lambda *a: a, finalize=False)
                    tok = hooks.next_token
                    owned[tok] = rd
                    expect0.add(tok)
                    del rd
                elif op == "init_render_final":
                    # the extension API used directly: data finalized when the renderer returns
                    # OR when validation / the renderer fails
                    too_big = ch.bool("too_big", 0.5)
                    if too_big:
                        vt.resize(1, 1)
                    # (a render class may drive a sequence of renders itself: iteration=True)
                    iteration = r.animated and ch.bool("iteration", 0.4)
                    desc = "%r._init_render_(finalize=True, check_size=True%s) on %dx%d terminal" % (
                        r, ", iteration=True" if iteration else "", vt.cols, vt.rows)
                    try:
                        r._init_render_(r._render_, None, padding_mod.AlignedPadding(3, 2),
                                        iteration=iteration, finalize=True, check_size=True)
                    finally:
                        if too_big:
                            vt.resize(rows, cols)
                elif op == "from_finalized":
                    if not r.animated:
                        continue
                    if released and ch.bool("older", 0.5):
                        tok = ch.pick("released", sorted(released))
                        rd = released[tok]
                        if rd.render_cls is not type(r):
                            continue
                    else:
                        # data its owner has just finalized
                        rd = r._get_render_data_(iteration=True)
                        tok = hooks.next_token
                        rd.finalize()
                    fin = ch.bool("finalize", 0.5)
                    desc = "_from_render_data_(%r, <finalized data #%d>, finalize=%s)" % (r, tok, fin)
                    try:
                        it = RenderIterator._from_render_data_(r, rd, None,
                                                               padding_mod.ExactPadding(),
                                                               1, finalize=fin)
                    except ValueError:
                        desc += " -> rejected"
                    else:
                        try:
                            next(it)
                        except Exception:
                            pass
                        it.close()
                        raise Violation("finalized_render_data_accepted_for_iteration",
                                        {"op": desc, "rendered_with_finalized": hooks.used_finalized},
                                        "from_finalized")
                    del rd
                elif op == "next":
                    if not live:
                        continue
                    lv = ch.pick("live", live)
                    desc = "next(%s)" % lv.desc
                    site = "next"
                    if not lv.started and not lv.closed:
                        pass
                    try:
                        next(lv.it)
                        lv.started = True
                    except StopIteration:
                        if not lv.closed:
                            ctx.probe("iterator_exhausted")
                        lv.closed = True
                        desc += " -> StopIteration"
                        iterator_closed_checks(lv, "next.exhausted")
                    except KeyboardInterrupt:
                        lv.interrupted = True
                        raise
                    except BaseException:
                        lv.closed = True
                        raise
                elif op == "next_many":
                    # runs of next() carry a cached iterator across a loop boundary
                    cands = [x for x in live if not x.closed]
                    if not cands:
                        continue
                    lv = ch.pick("live", cands)
                    cands = None
                    n_next = ch.int("n_next", 2, 7)
                    desc = "next(%s) x %d" % (lv.desc, n_next)
                    site = "next"
                    for _ in range(n_next):
                        try:
                            next(lv.it)
                            lv.started = True
                        except StopIteration:
                            ctx.probe("iterator_exhausted")
                            lv.closed = True
                            desc += " -> StopIteration"
                            iterator_closed_checks(lv, "next.exhausted")
                            break
                        except KeyboardInterrupt:
                            lv.interrupted = True
                            raise
                        except BaseException:
                            lv.closed = True
                            raise
                        check(hooks.used_finalized == 0, "frame_rendered_with_finalized_data",
                              {"op": desc, "fault": fault}, site)
                        check(not lv.owns or counts(lv.token) == 0,
                              "render_data_finalized_while_iterator_open",
                              {"iterator": lv.desc, "count": counts(lv.token), "after": desc,
                               "fault": fault}, site)
                elif op == "set":
                    # a settings change invalidates cached frames: later loops render again
                    if not live:
                        continue
                    lv = ch.pick("live", live)
                    what = ch.pick("setting", ("size", "args", "duration"))
                    if what == "size":
                        val = ti.geometry.Size(ch.int("sw", 1, 3), ch.int("sh", 1, 2))
                        fn = lambda: lv.it.set_render_size(val)  # noqa: E731
                    elif what == "args":
                        val = ch.pick("char", ("#", "%", "@"))
                        fn = lambda: lv.it.set_render_args(  # noqa: E731
                            R.RenderArgs(SimR, SimR.SimArgs(val)))
                    else:
                        val = ch.int("sdur", 1, 30)
                        fn = lambda: lv.it.set_frame_duration(val)  # noqa: E731
                    desc = "%s.set_%s(%r)" % (lv.desc, what, val)
                    try:
                        fn()
                        got = None
                    except FinalizedIteratorError:
                        got = "FinalizedIteratorError"
                    finally:
                        fn = None
                    check(lv.interrupted or (got is not None) == lv.closed,
                          "control_op_outcome_vs_closed_state",
                          {"iterator": lv.desc, "op": desc, "got": got, "closed": lv.closed}, "set")
                    if not lv.closed and lv.started:
                        ctx.probe("setting_changed_mid_iteration")
                elif op == "next_reentrant_close":
                    # close() arriving while a frame is being rendered (re-entrantly, or from
                    # another thread): the generator is executing, the close cannot take
                    # effect - and must not half take effect either
                    cands = [x for x in live if not x.closed]
                    if not cands:
                        continue
                    lv = ch.pick("live", cands)
                    cands = None             # do not keep iterators alive from this frame
                    desc = "next(%s) with close() called from inside the render" % lv.desc
                    outcome = []

                    def reenter(lv=lv):
                        try:
                            lv.it.close()
                            outcome.append("closed")
                        except ValueError as e:
                            outcome.append("ValueError")
                    hooks.on_render = reenter
                    try:
                        next(lv.it)
                        lv.started = True
                    except StopIteration:
                        lv.closed = True
                    except KeyboardInterrupt:
                        lv.interrupted = True
                        raise
                    except BaseException:
                        lv.closed = True
                        raise
                    finally:
                        hooks.on_render = None
                        reenter = None       # the closure keeps the iterator alive
                    desc += " -> %s" % (outcome or ["render not reached (cached)"])[0]
                    ctx.probe("reentrant_close_during_render")
                    if outcome == ["closed"]:
                        # close() returned normally: then the iterator IS closed from here on
                        # (whatever the call that was in progress went on to return)
                        lv.closed = True
                elif op == "seek":
                    if not live:
                        continue
                    lv = ch.pick("live", live)
                    off = ch.pick("seek_off", (0, 0, 1, 2, 3))
                    desc = "%s.seek(%d)" % (lv.desc, off)
                    try:
                        lv.it.seek(off)
                        got = None
                    except FinalizedIteratorError:
                        got = "FinalizedIteratorError"
                    except ValueError:
                        got = None if not lv.closed else "ValueError"   # out of range: rejected
                        desc += " -> ValueError"
                    check(lv.interrupted or (got is not None) == lv.closed,
                          "seek_outcome_vs_closed_state",
                          {"iterator": lv.desc, "got": got, "closed": lv.closed}, "seek")
                elif op == "close":
                    if not live:
                        continue
                    lv = ch.pick("live", live)
                    desc = "%s.close()" % lv.desc
                    if lv.closed:
                        ctx.probe("double_close")
                    elif not lv.started:
                        ctx.probe("close_during_dummy_frame_state")
                    before = dict(hooks.final_count)
                    lv.it.close()
                    if lv.closed:
                        check(before == hooks.final_count, "repeated_close_changed_something",
                              {"iterator": lv.desc}, "close")
                    lv.closed = True
                    ctx.nontrivial = True
                    iterator_closed_checks(lv, "close")
                elif op == "finalize":
                    if not owned:
                        continue
                    busy = {lv_.token for lv_ in live if not lv_.closed}
                    cands = [t for t in sorted(owned) if t not in busy]
                    if not cands:
                        continue
                    tok = ch.pick("owned", cands)
                    desc = "owner finalizes render data #%d" % tok
                    try:
                        owned[tok].finalize()
                    finally:
                        expect0.discard(tok)
                    must_be_final(tok, "owner finalized", "finalize")
                    owned[tok].finalize()
                    ctx.probe("double_finalize")
                    must_be_final(tok, "finalized twice", "finalize")
                    if owned[tok][R.Renderable].iteration:
                        released[tok] = owned.pop(tok)
                elif op == "drop":
                    if not live:
                        continue
                    idx = ch.int("drop", 0, len(live) - 1)
                    lv = live.pop(idx)
                    desc = "drop last reference to %s, collect" % lv.desc
                    tok, owns, was_closed = lv.token, lv.owns, lv.closed
                    lv = None
                    gc.collect()
                    ctx.nontrivial = True
                    if owns:
                        if not was_closed:
                            ctx.probe("finalized_by_garbage_collection")
                        must_be_final(tok, "iterator garbage-collected", "drop")
                    elif tok in expect0:
                        check(counts(tok) == 0, "caller_owned_render_data_finalized",
                              {"token": tok, "count": counts(tok), "when": "iterator collected"},
                              "drop")
                else:
                    gc.collect()
                    desc = "gc.collect()"
            except Violation:
                raise
            except BaseException as e:  # noqa: B902
                exc = e
            ctx.op("%s%s" % (desc, " -> raised %r" % (exc,) if exc is not None else ""))
            key.append((desc, type(exc).__name__ if exc is not None else None))
            fault_here = k.fault_done and not fired0
            finalizer_failed = fault_here and fault["kind"] == "finalize"
            if finalizer_failed:
                ctx.probe("finalizer_raised")
                # the render class's own finalizer failed: whatever object was being finalized
                # is in no documented state any more - it is dropped; the token bookkeeping
                # (the finalizer ran exactly once per data object) still has to come out right
                if lv is not None and lv in live:
                    live.remove(lv)
                lv = None
                gc.collect()
            if exc is not None:
                owns_after_init = op == "draw" and fault_here and not finalizer_failed and \
                    type(exc).__name__ != "RenderSizeOutofRangeError"
                rejected_args = type(exc).__name__ == "IncompatibleRenderArgsError"
                if op in ("str", "render", "init_render_final", "iter_rejected") \
                        or owns_after_init or rejected_args:
                    # these operations own the data (finalize=True): it must be final when they
                    # fail, not whenever the traceback happens to be collected (exc is still
                    # alive here and keeps the frames - and the data - referenced)
                    for tok in new_tokens(t0):
                        must_be_final(tok, "operation failed with %s" % type(exc).__name__, op)
                expected_validation = op in ("draw", "init_render_final") and \
                    type(exc).__name__ == "RenderSizeOutofRangeError"
                if op == "iter_rejected" and (isinstance(exc, ValueError) or rejected_args) \
                        and not fault_here:
                    ctx.nontrivial = True
                elif op == "draw" and rejected_args and not fault_here:
                    ctx.nontrivial = True
                elif op == "init_render_final" and type(exc) is StopIteration and not fault_here:
                    ctx.nontrivial = True      # an exhausted INDEFINITE source says so
                elif expected_validation:
                    ctx.probe("size_validation_failed_in_draw")
                    ctx.nontrivial = True
                elif not fault_here:
                    raise Violation("unexpected_exception_without_fault",
                                    {"op": desc, "exc": repr(exc)}, site)
                else:
                    ctx.nontrivial = True
                    if fault["kind"] == "render" and fault["exc"] == "KeyboardInterrupt":
                        ctx.probe("keyboardinterrupt_in_render")
                    elif fault["kind"] == "render":
                        if fault["exc"] == "StopIteration":
                            ctx.probe("stopiteration_from_definite_source")
                    else:
                        ctx.probe("interrupted_draw_write")
                if op in ("next", "next_many") and isinstance(exc, Exception) \
                        and not finalizer_failed:
                    # (an interrupt is not "an error": the iterator only has to end up
                    # finalized exactly once, which the end-of-history count decides)
                    iterator_closed_checks(lv, "next.error")
                del exc
                if handed_over:
                    gc.collect()
                    for tok_, _rd in handed_over:
                        must_be_final(tok_, "iterator construction failed, iterator collected",
                                      "from_data")
                    del handed_over[:]
                    _rd = None
            else:
                # the operation completed: data created for a one-shot operation is final now
                if op in ("str", "render", "draw", "init_render_final"):
                    for tok in new_tokens(t0):
                        must_be_final(tok, "operation completed", op)
            check(hooks.used_finalized == 0, "frame_rendered_with_finalized_data",
                  {"op": desc, "fault": fault}, site)
            for tok in expect0:
                check(counts(tok) == 0, "caller_owned_render_data_finalized",
                      {"token": tok, "count": counts(tok), "after": desc}, site)
            # "finalized exactly once - WHEN the iterator is exhausted, closed, collected or
            # fails": never while it is still open
            for lv_ in live:
                if lv_.owns and not lv_.closed:
                    check(counts(lv_.token) == 0, "render_data_finalized_while_iterator_open",
                          {"iterator": lv_.desc, "count": counts(lv_.token), "after": desc,
                           "fault": fault}, site)
            lv_ = None
        # end of history: release everything, collect, count
        ctx.extra["renders"] = k.counts.get("render", 0)
        ctx.extra["writes"] = k.counts.get("out.write", 0)
        ctx.extra["finalizes"] = k.counts.get("finalize", 0)
        ctx.extra["paddings"] = k.counts.get("padding", 0)
        for tok in sorted(owned):
            try:
                owned[tok].finalize()
            except RuntimeError:
                if not (fault and fault["kind"] == "finalize"):
                    raise
        owned.clear()
        released.clear()
        live.clear()
        lv = None
        gc.collect()
        bad = {t: c for t, c in hooks.final_count.items() if c != 1}
        check(not bad, "render_data_not_finalized_exactly_once",
              {"counts": bad, "when": "end of history, all references dropped and collected",
               "fault": fault}, "end")
        ctx.key(key, fault)
        ctx.log("trace", key)


def faults(ctx, ch):
    out = []
    for kk in range(1, ctx.extra.get("renders", 0) + 1):
        out.append({"kind": "render", "k": kk, "when": "before", "exc": "RuntimeError"})
        out.append({"kind": "render", "k": kk, "when": "before", "exc": "StopIteration"})
        out.append({"kind": "render", "k": kk, "when": "before", "exc": "KeyboardInterrupt"})
    for kk in range(1, ctx.extra.get("writes", 0) + 1):
        out.append({"kind": "out.write", "k": kk, "when": "before", "exc": "KeyboardInterrupt"})
    for kk in range(1, ctx.extra.get("paddings", 0) + 1):
        out.append({"kind": "padding", "k": kk, "when": "before", "exc": "RuntimeError"})
    for kk in range(1, ctx.extra.get("finalizes", 0) + 1):
        out.append({"kind": "finalize", "k": kk, "when": "before", "exc": "RuntimeError"})
    return out
