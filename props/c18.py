"""C18 - the urwid screen never leaves a ghost image behind."""
from __future__ import annotations

import gc

from simkit import tty as simtty
from simkit.core import Violation, check
from simkit.vterm import Profile, VTerm
from simkit.world import World

ID = "C18"
LEVEL = "exploration"
TECHNIQUE = ("deterministic simulation: seeded redraw histories of urwid layouts on the simulated "
             "terminal; history-independence oracle (terminal after the whole history == fresh "
             "terminal drawing only the last canvas), synchronized-update bracket, start/stop/"
             "clear and z-index invariants")
LEVEL_TEXT = ("A freshly booted library per world (the z-index allocator and the disguise state "
              "are process-global), terminal identity kitty / konsole / other, support detection "
              "through the real query path. A seeded history of <= 22 (thorough: 40) operations (create / drop + "
              "collect image widgets, change layout among pile / columns / overlay / list box / "
              "frame / bare top-level widget / grid of equal-width cells (a quarter of the worlds "
              "are grids only, rows re-divided between redraws), return to an earlier layout, a "
              "redraw interrupted by Ctrl-C that the application survives (at most one between "
              "two completed redraws, optionally followed by a redraw of the very same canvas or "
              "of the canvas of the last completed redraw), a pop-up put exactly over one side "
              "of an image view, scroll, move the overlay, resize, draw_screen, "
              "clear, clear_images(widgets, now), stop / start) drives a real UrwidImageScreen "
              "whose bytes are interpreted by the terminal model. After every redraw the graphics "
              "placements (cell rectangle, z-index, payload digest), image cells and text grid of "
              "the terminal that saw the WHOLE history must equal those of a second, fresh "
              "terminal onto which a fresh screen draws only the last canvas - any placement in "
              "the first and not in the second is a ghost by construction. Also: all output of a "
              "redraw lies inside one synchronized-update bracket which is closed even when "
              "drawing fails, start / stop / clear leave no placement, draw_screen never raises "
              "for a valid canvas, live kitty widgets hold pairwise distinct z-indexes in the "
              "signed 32-bit range excluding its minimum. Sampling, not proof.")
LEVEL_NOTE = ("Trusted: VTerm's kitty placement semantics (placements survive overwritten text, "
              "deletes by z / at cursor / all, ED 2 drops them, Konsole drops fully covered "
              "placements), urwid's own incremental redraw (real code, not under test).")
TIERS = {
    "quick": {"runs": 6000, "max_ops": 22},
    "thorough": {"runs": 40000, "max_ops": 40, "wall_cap": 1500},
}
RULE = ("history = terminal identity + screen size <= 60x30 + pool of <= 6 widgets + <= max_ops "
        "operations; non-trivial = an image widget changed position, size, visibility or identity "
        "between two redraws; distinct = hash of the operation list")
PROBES = ["image_moved_between_redraws", "image_disappeared", "bare_non_composite_canvas",
          "overlay_covers_image", "list_scrolled", "widget_collected_z_index_reused",
          "stop_start_cycle", "clear_images_now", "konsole_iterm2_image", "resize",
          "ghost_free_redraws", "returned_to_earlier_layout",
          "kitty_style_by_forced_support", "grid_row_redivided",
          "kitty_widget_spec_with_z_index_field", "redraw_interrupted",
          "images_rerendered_in_place", "stray_image_before_start",
          "redraw_while_resize_pending", "same_canvas_drawn_again_after_interrupt",
          "overlay_aimed_at_one_side_of_an_image",
          "earlier_canvas_drawn_again_after_interrupt", "layout_reverted_after_interrupt"]
COMPONENTS = {
    "real": ["UrwidImageScreen (draw_screen, clear, clear_images, _start, _stop, "
             "_ti_clear_images)", "UrwidImage / UrwidImageCanvas", "KittyImage / ITerm2Image / "
             "BlockImage rendering", "urwid (layout, canvas cache, raw_display incremental "
             "redraw)", "support detection (real queries)"],
    "stub": ["terminal emulator (VTerm) x2", "stdout / tty", "clock"],
}
ASSUMPTIONS = ["the screen size passed to render()/draw_screen() equals the simulated terminal "
               "size", "widgets are used as urwid documents (box / flow sizing)"]

PROFILES = [
    ("kitty", "0.31.0", "paren", True, None),
    ("kitty", "0.25.0", "paren", True, None),
    ("Konsole", "23.08.1", "space", True, "placement"),
    ("XTerm", "370", "paren", False, None),
    # a terminal that implements the kitty graphics protocol but is neither kitty nor konsole
    # by name: the application sets KittyImage.forced_support (terminal identity "other")
    ("ghostty", "1.1.0", "space", True, None),
]


class FakeIn:
    def fileno(self):
        return 1002

    def isatty(self):
        return False


def copy_layout(x):
    """Structural copy of a layout description; widgets stay the same objects."""
    if isinstance(x, dict):
        return {k: copy_layout(v) for k, v in x.items()}
    if isinstance(x, (list, tuple)):
        return type(x)(copy_layout(v) for v in x)
    return x


def run(ch, ctx, fault=None):
    name, version, fmt, kg, it = ch.pick("profile", PROFILES)
    profile = Profile(name=name, version=version, xtversion_fmt=fmt,
                      answers={"da1", "xtversion", "osc10", "osc11", "14t", "16t"},
                      kitty_graphics=kg, iterm2_images=it)
    rows, cols = ch.int("rows", 4, 30), ch.int("cols", 8, 60)
    cell = (ch.int("cw", 2, 6), ch.int("chh", 4, 10))
    w = World(ctx, ch, fault, rows=rows, cols=cols, profile=profile, cell_px=cell,
              with_widget=True, prefill=False, buffered=ch.bool("buffered", 0.5))
    k, tty, vt, out = w.k, w.tty, w.vt, w.out
    k.log_seams = False
    key = []
    with w:
        import urwid
        from PIL import Image
        from term_image import image as ti_image
        from term_image.widget import UrwidImage, UrwidImageCanvas, UrwidImageScreen
        styles = ["block"]
        if name.lower() in ("kitty", "konsole"):
            styles += ["kitty", "kitty", "kitty"]
        if name.lower() == "konsole":
            styles += ["iterm2"]
        if name.lower() == "ghostty":
            ti_image.KittyImage.forced_support = True
            styles += ["kitty", "kitty", "kitty"]
            ctx.probe("kitty_style_by_forced_support")
        class SubImage(UrwidImage):
            """an application-defined image widget"""

        pool = []     # dicts: w (widget), kind, desc
        size = [cols, rows]
        serial = [0]

        def new_widget():
            serial[0] += 1
            kind = ch.weighted("wkind", [(6, "image"), (2, "text"), (1, "fill"), (1, "divider")])
            if kind == "image":
                style = ch.pick("style", styles)
                cls = {"block": ti_image.BlockImage, "kitty": ti_image.KittyImage,
                       "iterm2": ti_image.ITerm2Image}[style]
                pw, ph = ch.int("pw", 1, 24), ch.int("ph", 1, 24)
                col = ((37 * serial[0]) % 256, (91 * serial[0]) % 256, 60)
                im = cls(Image.new("RGB", (pw, ph), col))
                spec = ch.pick("spec", ("", "<", ">", ".^", "._", "<.^"))
                if style == "kitty" and ch.bool("zspec", 0.3):
                    # a z-index field in the widget's format spec is documented as ignored:
                    # the screen manages the z-indexes of its image widgets itself
                    spec += ch.pick("zfield", ("+z7", "+z7", "+z-3", "+z0"))
                    ctx.probe("kitty_widget_spec_with_z_index_field")
                if style == "iterm2":
                    ctx.probe("konsole_iterm2_image")
                # applications subclass the widget; the z-index allocator is shared by all
                wcls = SubImage if ch.bool("subclass", 0.35) else UrwidImage
                wd = wcls(im, spec, upscale=ch.bool("upscale", 0.5))
                return {"w": wd, "kind": "image", "style": style,
                        "desc": "%sImage#%d(%dx%d,%r)" % (style, serial[0], pw, ph, spec)}
            if kind == "text":
                return {"w": urwid.Text("text-%d " % serial[0] * ch.int("rep", 1, 4)),
                        "kind": "text", "desc": "Text#%d" % serial[0]}
            if kind == "fill":
                return {"w": urwid.SolidFill(ch.pick("fillch", ".:-")), "kind": "fill",
                        "desc": "SolidFill#%d" % serial[0]}
            return {"w": urwid.Divider(ch.pick("divch", "-=")), "kind": "divider",
                    "desc": "Divider#%d" % serial[0]}

        for _ in range(ch.int("n_pool", 1, 4)):
            pool.append(new_widget())

        # a quarter of the worlds are spreadsheet-like applications: grids only, rows re-divided
        # between redraws (horizontal moves by whole cells under rows of uneven height)
        grid_focus = [ch.bool("grid_focus", 0.25)]

        def gen_grid_row(unit_cols, flow):
            """cells of a grid row: (span in units, content); content = pool index of a flow
            widget, ("tall", n lines) or ("pile", n one-line texts)"""
            cells, left = [], unit_cols
            while left > 0:
                span = min(left, ch.pick("span", (1, 1, 1, 2)))
                ck = ch.weighted("cell", [(4, "widget"), (3, "tall"), (2, "pile"), (1, "line")])
                if ck == "widget" and flow:
                    content = ch.pick("cw_", flow)
                elif ck == "tall":
                    content = ("tall", ch.int("tl", 2, 3))
                elif ck == "pile":
                    content = ("pile", ch.int("pl", 2, 3))
                else:
                    content = ("tall", 1)
                cells.append((span, content))
                left -= span
            return cells

        def gen_layout():
            kinds = [(4, "pile"), (3, "columns"), (3, "overlay"), (3, "list"), (1, "frame"),
                     (2, "bare"), (7, "grid")]
            kind = ch.weighted("lkind", kinds)
            if grid_focus[0]:
                kind = "grid"
            idxs = list(range(len(pool)))
            if kind == "grid":
                # rows of equal-width cells (some spanning two): canvases of different heights
                # side by side, images aligned with cell boundaries of the rows above
                flow = [i for i in idxs if pool[i]["kind"] in ("image", "text", "divider")]
                unit = ch.pick("unit", (4, 6, 8))
                ucols = ch.int("ucols", 2, 4)
                rows_ = [gen_grid_row(ucols, flow) for _ in range(ch.int("grows", 2, 3))]
                if ch.bool("stairs", 0.65):
                    # a short stack next to taller cells: the row's first shard ends while the
                    # canvases to its right still span further lines
                    rows_[0] = [(1, ("pile", ch.int("pl", 2, 3)))] + \
                        [(1, ("tall", ch.int("tl", 2, 3))) for _ in range(ucols - 1)]
                imgs_ = [i for i in flow if pool[i]["kind"] == "image"]
                if imgs_ and not any(isinstance(c, int) and c in imgs_
                                     for row in rows_[1:] for _, c in row):
                    row = rows_[-1]
                    j = ch.int("imgcell", 0, len(row) - 1)
                    row[j] = (row[j][0], ch.pick("gimg", imgs_))
                return {"kind": "grid", "unit": unit, "ucols": ucols, "rows": rows_}
            if kind == "bare":
                box = [i for i in idxs if pool[i]["kind"] in ("image", "fill")]
                if not box:
                    kind = "pile"
                else:
                    return {"kind": "bare", "w": ch.pick("bw", box)}
            if kind in ("pile", "columns"):
                n = ch.int("n_items", 1, min(4, len(pool)))
                items = []
                for _ in range(n):
                    i = ch.pick("item", idxs)
                    items.append((ch.int("extent", 1, 8), i))
                return {"kind": kind, "items": items}
            if kind == "overlay":
                box = [i for i in idxs if pool[i]["kind"] in ("image", "fill")] or [None]
                return {"kind": "overlay", "top": ch.pick("top", box),
                        "x": ch.int("ox", 0, 20), "y": ch.int("oy", 0, 10),
                        "ow": ch.int("oww", 1, 20), "oh": ch.int("ohh", 1, 8),
                        "bottom": {"kind": "pile",
                                   "items": [(ch.int("extent", 1, 8), ch.pick("item", idxs))
                                             for _ in range(ch.int("n_items", 1, 3))]}}
            if kind == "list":
                flow = [i for i in idxs if pool[i]["kind"] in ("image", "text", "divider")]
                if not flow:
                    return {"kind": "pile", "items": [(2, ch.pick("item", idxs))]}
                return {"kind": "list", "items": [ch.pick("li", flow)
                                                  for _ in range(ch.int("n_li", 1, 6))],
                        "focus": 0}
            return {"kind": "frame", "body": {"kind": "pile",
                                              "items": [(ch.int("extent", 1, 8),
                                                         ch.pick("item", idxs))]}}

        def as_box(i, extent_kind="rows"):
            d = pool[i]
            if d["kind"] in ("image", "fill"):
                return d["w"]
            return urwid.Filler(d["w"], "top")

        def build(layout):
            kind = layout["kind"]
            if kind == "bare":
                return pool[layout["w"]]["w"]
            if kind == "grid":
                seen = set()
                rows_w = []
                for ri, cells in enumerate(layout["rows"]):
                    cols_w = []
                    for ci, (span, content) in enumerate(cells):
                        if isinstance(content, int):
                            if content >= len(pool) or content in seen or \
                                    pool[content]["kind"] == "fill":
                                wdg = urwid.Text("r%dc%d" % (ri, ci))
                            else:
                                seen.add(content)
                                wdg = pool[content]["w"]
                        elif content[0] == "tall":
                            wdg = urwid.Text("\n".join("t%d%d.%d" % (ri, ci, j)
                                                       for j in range(content[1])))
                        else:
                            wdg = urwid.Pile([urwid.Text("p%d%d.%d" % (ri, ci, j))
                                              for j in range(content[1])])
                        cols_w.append((span * layout["unit"], wdg))
                    rows_w.append(urwid.Columns(cols_w))
                return urwid.Filler(urwid.Pile(rows_w), "top")
            if kind == "pile":
                seen = set()
                items = []
                for ext, i in layout["items"]:
                    if i >= len(pool) or i in seen:
                        continue
                    seen.add(i)
                    items.append((ext, as_box(i)))
                items.append(urwid.SolidFill(" "))
                return urwid.Pile(items)
            if kind == "columns":
                seen = set()
                items = []
                for ext, i in layout["items"]:
                    if i >= len(pool) or i in seen:
                        continue
                    seen.add(i)
                    items.append((ext, as_box(i)))
                items.append(urwid.SolidFill(" "))
                return urwid.Columns(items, box_columns=list(range(len(items))))
            if kind == "overlay":
                bottom = build(layout["bottom"])
                t = layout["top"]
                top = as_box(t) if t is not None and t < len(pool) else urwid.SolidFill("#")
                return urwid.Overlay(top, bottom, ("fixed left", layout["x"]), layout["ow"],
                                     ("fixed top", layout["y"]), layout["oh"])
            if kind == "list":
                ws = [pool[i]["w"] for i in layout["items"] if i < len(pool)
                      and pool[i]["kind"] != "fill"] or [urwid.Text("empty")]
                # a widget object may appear once in a list walker
                uniq = []
                for x in ws:
                    if not any(x is y for y in uniq):
                        uniq.append(x)
                lb = urwid.ListBox(urwid.SimpleFocusListWalker(uniq))
                try:
                    lb.set_focus(min(layout.get("focus", 0), len(uniq) - 1))
                except Exception:
                    pass
                return lb
            return urwid.Frame(build(layout["body"]), header=urwid.Text("header"),
                               footer=urwid.Text("footer"))

        def image_geometry(canvas):
            """(widget id, row, col, rows, cols) of every image canvas in a canvas tree -
            used only to decide non-triviality."""
            out = []
            if isinstance(canvas, urwid.CompositeCanvas):
                row = 0
                for n_rows, cviews in canvas.shards:
                    col = 0
                    for cv in cviews:
                        c = cv[-1]
                        if isinstance(c, UrwidImageCanvas):
                            out.append((id(c.widget_info[0]) if c.widget_info else 0, row, col,
                                        cv[3], cv[2]))
                        col += cv[2]
                    row += n_rows
            elif isinstance(canvas, UrwidImageCanvas):
                out.append((id(canvas.widget_info[0]) if canvas.widget_info else 0, 0, 0,
                            canvas.rows(), canvas.cols()))
            return sorted(out)

        def disguise_state():
            return (UrwidImageCanvas._ti_disguise_state,
                    [(d["w"], d["w"].__dict__.get("_ti_disguise_state")) for d in pool
                     if d["kind"] == "image"])

        def restore_disguise(st):
            UrwidImageCanvas._ti_disguise_state = st[0]
            for wd, val in st[1]:
                if val is None:
                    wd.__dict__.pop("_ti_disguise_state", None)
                else:
                    wd._ti_disguise_state = val

        def reference(canvas):
            """A fresh terminal onto which a fresh screen draws only this canvas."""
            st = disguise_state()
            rvt = VTerm(size[1], size[0], profile, cell, prefill=False)
            rtty = simtty.SimTTY(k, rvt)
            rout = simtty.SimStdout(k, rtty, isatty=True, buffered=False)
            rs = UrwidImageScreen(input=FakeIn(), output=rout)
            try:
                rs.start()
                rs.draw_screen((size[0], size[1]), canvas)
                snap = VTerm(size[1], size[0], profile, cell, prefill=False)
                snap.grid = [list(row) for row in rvt.grid]
                snap.placements = list(rvt.placements)
                rs.stop()
            finally:
                restore_disguise(st)
            return snap

        def img_cells(v):
            out = []
            for r in range(v.rows):
                for c in range(v.cols):
                    if v.grid[r][c][0] == "\1":
                        out.append((r, c, v.grid[r][c][1:3]))
            return out

        screen = UrwidImageScreen(input=FakeIn(), output=out)
        started = [False]
        layout = gen_layout()
        last_geo = [None]
        redraws = [0]
        force_new = [False]
        ctx.op("terminal %dx%d cell=%s profile=%s %s; pool=%s" %
               (cols, rows, cell, name, version, [d["desc"] for d in pool]))

        def do_start(alternate_buffer=True):
            screen.start(alternate_buffer=alternate_buffer)
            screen.flush()
            out.drain()
            started[0] = True
            check(not vt.placements, "images_not_cleared_on_start",
                  {"placements": vt.placement_keys()}, "start")

        do_start()
        n_ops = ch.int("n_ops", 3, ctx.cfg["max_ops"])
        earlier = []
        queue = []
        forced_aim = [False]
        forced_int = [False]
        last_canvas = [None]     # (canvas, size) of the last completed redraw, while still usable
        last_layout = [None]     # the layout it showed
        i = -1
        while True:
            i += 1
            if not queue and i >= n_ops:
                break
            # explicit clear_images() is generated at most once between two redraws (the
            # disguise state is modulo 3: three calls without a redraw wrap it, as the
            # library's own comments note)
            if grid_focus[0]:
                op = ch.weighted("op", [
                    (10, "draw"), (1, "create"), (1, "drop"), (1, "layout"), (10, "grid_edit"),
                    (1, "resize"), (1, "clear_images"),
                ])
            else:
                op = ch.weighted("op", [
                    (10, "draw"), (3, "create"), (2, "drop"), (5, "layout"), (3, "scroll"),
                    (6, "grid_edit"), (3, "move_overlay"), (2, "resize"), (1, "clear"),
                    (2, "clear_images"), (1, "stop_start"), (3, "draw_interrupted"),
                    (2, "swap_toggle"), (4 if layout["kind"] == "overlay" else 0, "popup"),
                    (2 if layout["kind"] == "overlay" else 0, "popup_cut"),
                ])
            if queue:
                op = queue.pop(0)
            elif op == "popup_cut":
                # the same pop-up, but the redraw that shows it is cut short right after the
                # delete commands for the covered image went out, and the pop-up is dismissed
                queue = ["move_away", "draw", "move_aimed", "draw_interrupted"]
                forced_int[0] = True
                continue
            elif op == "popup":
                # a pop-up that was elsewhere appears over one side of an image: redraw with
                # the pop-up out of the way, move it onto the image, redraw
                queue = ["move_away", "draw", "move_aimed", "draw"]
                continue
            desc = op
            if op not in ("draw", "draw_interrupted", "layout", "scroll", "grid_edit",
                          "move_overlay", "move_away", "move_aimed"):
                last_canvas[0] = None
                last_layout[0] = None
            if op == "move_away":
                if layout["kind"] != "overlay":
                    del queue[:]
                    continue
                layout.update(x=max(0, size[0] - 1), y=max(0, size[1] - 1), ow=1, oh=1)
                ctx.op("overlay -> 1x1 in the bottom right corner")
                continue
            if op == "move_aimed":
                if layout["kind"] != "overlay" or not last_geo[0]:
                    del queue[:]
                    continue
                forced_aim[0] = True
                op = "move_overlay"
            if op == "draw":
                top = build(layout)
                if force_new[0]:
                    # an application that cleared images redraws something: the top canvas is
                    # a new object but the image widgets keep their cached canvases at their
                    # old places - only the disguise can make urwid repaint those lines
                    top._invalidate()
                    force_new[0] = False
                try:
                    canvas = top.render((size[0], size[1]), focus=True)
                except Exception as e:
                    # a layout urwid itself rejects (too small etc.) is not a valid canvas
                    desc = "render failed in urwid: %r" % (e,)
                    layout = {"kind": "pile", "items": []}
                    ctx.op(desc)
                    continue
                if ch.bool("resize_pending", 0.12):
                    # SIGWINCH arrived (font change, tmux re-attach: the size turns out to be the
                    # same): the main loop calls draw_screen() while the resize is pending -
                    # urwid paints nothing then - handles the "window resize" input and calls
                    # draw_screen() again, with the very same cached canvas
                    screen._resized = True
                    try:
                        screen.draw_screen((size[0], size[1]), canvas)
                    finally:
                        screen._resized = False
                    out.drain()
                    ctx.probe("redraw_while_resize_pending")
                geo = image_geometry(canvas)
                if not isinstance(canvas, urwid.CompositeCanvas):
                    ctx.probe("bare_non_composite_canvas")
                if last_geo[0] is not None and geo != last_geo[0]:
                    ctx.nontrivial = True
                    ctx.probe("image_moved_between_redraws")
                    if len(geo) < len(last_geo[0]):
                        ctx.probe("image_disappeared")
                last_geo[0] = geo
                out.drain()     # output of earlier operations is not part of this redraw
                n0 = len(out.sink)
                try:
                    screen.draw_screen((size[0], size[1]), canvas)
                except Exception as e:
                    out.drain()
                    check(not vt.synced, "synchronized_update_left_open_after_failure", {}, "draw")
                    raise Violation("draw_screen_raised_for_a_valid_canvas",
                                    {"exc": repr(e), "layout": repr(layout)[:300]}, "draw")
                out.drain()
                raw = bytes(out.sink[n0:])
                desc = "draw_screen(%s) -> %d bytes, %d placements" % (
                    layout["kind"], len(raw), len(vt.placements))
                b, e_ = b"\x1b[?2026h", b"\x1b[?2026l"
                check(raw.startswith(b) and raw.endswith(e_) and raw.count(b) == 1
                      and raw.count(e_) == 1, "redraw_output_not_bracketed_by_synchronized_update",
                      {"head": raw[:40], "tail": raw[-40:], "begins": raw.count(b),
                       "ends": raw.count(e_)}, "draw")
                check(not vt.synced, "synchronized_update_left_open", {}, "draw")
                check(not vt.errors, "malformed_graphics_command", {"errors": vt.errors[:3]},
                      "draw")
                rvt = reference(canvas)
                got_p, exp_p = vt.placement_keys(), rvt.placement_keys()
                if got_p != exp_p:
                    ghosts = [p for p in got_p if p not in exp_p]
                    missing = [p for p in exp_p if p not in got_p]
                    raise Violation("ghost_image" if ghosts else "image_missing_after_redraw",
                                    {"ghosts": ghosts[:5], "missing": missing[:5],
                                     "layout": repr(layout)[:300], "history": key[-8:]}, "draw")
                check(img_cells(vt) == img_cells(rvt), "image_cells_differ_from_fresh_draw",
                      {"layout": repr(layout)[:200]}, "draw")
                redraws[0] += 1
                ctx.probe("ghost_free_redraws")
                last_canvas[0] = (canvas, (size[0], size[1]))
                last_layout[0] = copy_layout(layout)
            elif op == "draw_interrupted":
                # Ctrl-C lands inside a redraw and the application carries on with its loop
                if force_new[0]:
                    # (as for clear_images() below: every cut-short redraw may change the
                    # disguise of the lines of an image that urwid has on record from the last
                    # COMPLETED redraw, and the disguise cycles modulo 3 - at most one such
                    # operation between two completed redraws)
                    continue
                top = build(layout)
                try:
                    canvas = top.render((size[0], size[1]), focus=True)
                except Exception as e:
                    ctx.op("render failed in urwid: %r" % (e,))
                    layout = {"kind": "pile", "items": []}
                    continue
                out.drain()
                # (the second write of a redraw is the batch of delete commands, if any image
                # has to go: the clean-up itself is cut short)
                int_at = ch.pick("int_at", (1, 2, 2, 2, 3, 4, 5, 6)) if ch.bool("int_early", 0.5) \
                    else ch.int("int_at_late", 7, 60)
                scripted = forced_int[0]
                forced_int[0] = False
                if scripted:
                    int_at = 2
                seen_w = [0]
                real_write = out.write

                # (the signal arrives as the write begins, or when its bytes are out already)
                int_after = ch.bool("int_after_the_bytes_went_out", 0.4) or scripted

                def interrupting_write(text):
                    # (the closing bracket itself is the redraw's clean-up: not interrupted)
                    if text != "\x1b[?2026l":
                        seen_w[0] += 1
                        if seen_w[0] == int_at:
                            if int_after and text != "\x1b[?2026h":
                                # (not the opening bracket: an interrupt between that write
                                # and the `try` it precedes is the between-two-bytecodes kind)
                                real_write(text)
                            raise KeyboardInterrupt
                    return real_write(text)

                out.write = interrupting_write
                hit = False
                try:
                    screen.draw_screen((size[0], size[1]), canvas)
                except KeyboardInterrupt:
                    hit = True
                    ctx.probe("redraw_interrupted")
                finally:
                    del out.write
                # (the closing bracket has reached the terminal by the time draw_screen() is
                # left - not whenever the stream happens to be flushed next)
                check(not vt.synced, "synchronized_update_left_open_after_failure",
                      {"stdout_buffered": out.buffered}, "draw")
                out.drain()
                check(not vt.synced, "synchronized_update_left_open_after_failure", {}, "draw")
                desc = "draw_screen(%s) %s" % (layout["kind"], "interrupted by Ctrl-C" if hit
                                               else "(completed)")
                last_geo[0] = None
                force_new[0] = True
                if hit and not scripted and ch.bool("same_canvas_again", 0.6):
                    # the main loop survives and draws again: nothing was invalidated, so it is
                    # the very same canvas object
                    screen.draw_screen((size[0], size[1]), canvas)
                    out.drain()
                    check(not vt.synced, "synchronized_update_left_open", {}, "draw")
                    desc += "; the same canvas drawn again"
                    # that redraw was complete: the screen shows exactly that canvas's images
                    rvt = reference(canvas)
                    got_p, exp_p = vt.placement_keys(), rvt.placement_keys()
                    if got_p != exp_p:
                        ghosts = [p for p in got_p if p not in exp_p]
                        missing = [p for p in exp_p if p not in got_p]
                        raise Violation("ghost_image" if ghosts else "image_missing_after_redraw",
                                        {"ghosts": ghosts[:5], "missing": missing[:5],
                                         "layout": repr(layout)[:300],
                                         "history": key[-8:] + [desc]}, "draw")
                    ctx.probe("same_canvas_drawn_again_after_interrupt")
                elif hit and not scripted and last_canvas[0] \
                        and last_canvas[0][1] == (size[0], size[1]) \
                        and last_canvas[0][0] is not canvas and ch.bool("earlier_canvas_again", 0.6):
                    # ... or what was being shown is dismissed again and the widget tree is
                    # back to what it was: the canvas of the last completed redraw comes out of
                    # the cache, the very same object.  urwid paints nothing for it (it has
                    # that canvas on record as displayed), so only this much is certain: no
                    # image that is not part of it stays on the terminal.  The application
                    # then repaints in full.
                    prev_canv = last_canvas[0][0]
                    screen.draw_screen((size[0], size[1]), prev_canv)
                    out.drain()
                    check(not vt.synced, "synchronized_update_left_open", {}, "draw")
                    desc += "; the canvas of the last completed redraw drawn again"
                    exp_p = reference(prev_canv).placement_keys()
                    ghosts = [p for p in vt.placement_keys() if p not in exp_p]
                    if ghosts:
                        raise Violation("ghost_image", {"ghosts": ghosts[:5], "missing": [],
                                                        "layout": repr(layout)[:300],
                                                        "history": key[-8:] + [desc]}, "draw")
                    ctx.probe("earlier_canvas_drawn_again_after_interrupt")
                    screen.clear()
                    out.drain()
                elif hit and last_layout[0] is not None and \
                        (scripted or ch.bool("layout_reverted", 0.5)):
                    # ... or what was being opened is dismissed: back to the layout of the last
                    # completed redraw (a new top canvas, the image widgets' canvases cached)
                    layout = copy_layout(last_layout[0])
                    queue.insert(0, "draw")
                    desc += "; back to the previous layout"
                    ctx.probe("layout_reverted_after_interrupt")
                last_canvas[0] = None
            elif op == "swap_toggle":
                # the application corrects the reported window dimensions (win-size swap): the
                # cell size the library works with changes at an unchanged terminal size, the
                # image widgets are re-rendered IN PLACE with a different extent inside
                # their boxes
                from term_image import utils as ti_utils
                import term_image
                if ti_utils._swap_win_size:
                    term_image.disable_win_size_swap()
                else:
                    term_image.enable_win_size_swap()
                for d in pool:
                    if d["kind"] == "image":
                        d["w"]._invalidate()
                urwid.CanvasCache.clear()
                desc = "win-size swap -> %s; image widgets invalidated" % ti_utils._swap_win_size
                ctx.probe("images_rerendered_in_place")
            elif op == "create":
                if len(pool) >= 6:
                    continue
                d = new_widget()
                pool.append(d)
                desc = "create %s" % d["desc"]
            elif op == "drop":
                if len(pool) <= 1:
                    continue
                idx = ch.int("drop", 0, len(pool) - 1)
                d = pool.pop(idx)
                desc = "drop %s, collect" % d["desc"]
                z = getattr(d["w"], "_ti_z_index", None)
                del earlier[:]          # layouts refer to pool indexes
                layout = gen_layout()
                last = None
                d = None
                urwid.CanvasCache.clear()
                gc.collect()
                if z is not None:
                    ctx.probe("widget_collected_z_index_reused")
            elif op == "grid_edit":
                # one row of a grid is re-divided (cells merged / split): whatever sits in it
                # moves horizontally by whole cells while the rows above stay as they are
                if layout["kind"] != "grid":
                    continue
                flow = [i for i in range(len(pool)) if pool[i]["kind"] in ("image", "text",
                                                                          "divider")]
                ri = ch.int("grow", 1, len(layout["rows"]) - 1) if ch.bool("lower", 0.8) else 0
                old = layout["rows"][ri]
                keep = [c for _, c in old if isinstance(c, int)]
                new = gen_grid_row(layout["ucols"], flow)
                # keep the row's widgets (in order) so that they move rather than vanish
                slots = [j for j, (_, c) in enumerate(new) if not isinstance(c, int)]
                if keep and slots:
                    # the kept widgets land in seeded cells (not always the leftmost ones)
                    start = ch.int("kslot", 0, max(0, len(slots) - len(keep)))
                    for j, c in zip(slots[start:], keep):
                        new[j] = (new[j][0], c)
                layout["rows"][ri] = new
                desc = "grid row %d -> %r" % (ri, new)
                ctx.probe("grid_row_redivided")
            elif op == "layout":
                if earlier and ch.bool("back", 0.3):
                    # back to an earlier layout (close a dialog, switch tabs and back): the
                    # images return to places the screen has seen them at before
                    layout = copy_layout(ch.pick("earlier", earlier))
                    ctx.probe("returned_to_earlier_layout")
                else:
                    layout = gen_layout()
                    if len(earlier) < 6:
                        earlier.append(copy_layout(layout))
                desc = "layout -> %r" % (layout,)
            elif op == "scroll":
                if layout["kind"] != "list":
                    continue
                layout["focus"] = ch.int("focus", 0, max(0, len(layout["items"]) - 1))
                desc = "list focus -> %d" % layout["focus"]
                ctx.probe("list_scrolled")
            elif op == "move_overlay":
                if layout["kind"] != "overlay":
                    continue
                layout["x"], layout["y"] = ch.int("ox", 0, 20), ch.int("oy", 0, 10)
                desc = "overlay -> (%d,%d)" % (layout["x"], layout["y"])
                aimed = forced_aim[0]
                forced_aim[0] = False
                if last_geo[0] and (aimed or ch.bool("aimed_at_image", 0.3)):
                    # the pop-up is put exactly over one side (or all) of an image view: the
                    # view keeps its place and is trimmed on that side only
                    # (the first field of a geometry entry is an id(): not a sort key)
                    grow, gcol, grows, gcols = ch.pick(
                        "target", sorted(g[1:] for g in last_geo[0]))
                    side = ch.pick("side", ("right", "right", "left", "bottom", "top", "all"))
                    x, y, ow, oh = gcol, grow, gcols, grows
                    if side == "right" and gcols > 1:
                        cut = ch.int("cut", 1, gcols - 1)
                        x, ow = gcol + cut, gcols - cut
                    elif side == "left" and gcols > 1:
                        ow = ch.int("cut", 1, gcols - 1)
                    elif side == "bottom" and grows > 1:
                        cut = ch.int("cut", 1, grows - 1)
                        y, oh = grow + cut, grows - cut
                    elif side == "top" and grows > 1:
                        oh = ch.int("cut", 1, grows - 1)
                    layout.update(x=x, y=y, ow=ow, oh=oh)
                    desc = "overlay -> %dx%d at (%d,%d): the %s of an image view" % (
                        ow, oh, x, y, side)
                    ctx.probe("overlay_aimed_at_one_side_of_an_image")
                ctx.probe("overlay_covers_image")
            elif op == "resize":
                size[0], size[1] = ch.int("cols2", 8, 60), ch.int("rows2", 4, 30)
                vt.resize(size[1], size[0])
                # a real resize makes urwid clear and redraw everything
                screen.clear()
                desc = "resize to %dx%d (+ screen.clear())" % (size[0], size[1])
                ctx.probe("resize")
            elif op == "clear":
                screen.clear()
                screen.flush()
                out.drain()
                desc = "screen.clear()"
                check(not vt.placements, "images_not_cleared_on_clear",
                      {"placements": vt.placement_keys()}, "clear")
            elif op == "clear_images":
                if force_new[0]:
                    # the disguise state cycles modulo 3: several clear_images() calls without
                    # a redraw in between can wrap it (noted in the library's own comments);
                    # explicit clear_images() histories are not in the property's quantifier
                    continue
                imgs = [d["w"] for d in pool if d["kind"] == "image"]
                now = ch.bool("now", 0.5)
                some = [] if ch.bool("all", 0.5) else [x for x in imgs if ch.bool("sel", 0.5)]
                screen.clear_images(*some, now=now)
                force_new[0] = True
                desc = "clear_images(%d widgets, now=%s)" % (len(some), now)
                if now:
                    ctx.probe("clear_images_now")
                    if not some and (kg):
                        check(not vt.placements, "clear_images_now_left_placements",
                              {"placements": vt.placement_keys()}, "clear_images")
            else:
                screen.stop()
                out.drain()
                check(not vt.placements, "images_not_cleared_on_stop",
                      {"placements": vt.placement_keys()}, "stop")
                alt = ch.bool("alternate_buffer", 0.6)
                stray = kg and ch.bool("stray_image", 0.5)
                if stray:
                    # something else (an earlier run that died, another program) left an image
                    # on the terminal before the screen is started again
                    ti_image.KittyImage.forced_support = True
                    s_ = str(ti_image.KittyImage(Image.new("RGB", (4, 4), (200, 10, 10)),
                                                 width=2))
                    vt.r, vt.c = min(1, vt.rows - 1), 0
                    vt.feed(s_.encode().replace(b"\n", b"\r\n"))
                    ctx.probe("stray_image_before_start")
                do_start(alt)
                if not alt:
                    # (without the alternate buffer urwid paints relative to wherever the cursor
                    # happens to be: the redraw oracle compares absolute positions, so the
                    # history goes on in the alternate buffer)
                    screen.stop()
                    out.drain()
                    check(not vt.placements, "images_not_cleared_on_stop",
                          {"placements": vt.placement_keys()}, "stop")
                    do_start(True)
                last_geo[0] = None
                desc = "stop(); %sstart(alternate_buffer=%s)" % (
                    "stray image; " if stray else "", alt)
                ctx.probe("stop_start_cycle")
            ctx.op(desc)
            key.append(desc)
            # live kitty widgets: pairwise distinct z-indexes in range
            zs = [d["w"]._ti_z_index for d in pool
                  if d["kind"] == "image" and hasattr(d["w"], "_ti_z_index")]
            check(len(set(zs)) == len(zs), "live_kitty_widgets_share_a_z_index", {"z": zs},
                  "zindex")
            check(all(-(2 ** 31) < z < 2 ** 31 for z in zs), "z_index_out_of_range", {"z": zs},
                  "zindex")
        screen.stop()
        out.drain()
        check(not vt.placements, "images_not_cleared_on_stop",
              {"placements": vt.placement_keys()}, "stop")
        ctx.key(name, version, (cols, rows), key)
        ctx.log("trace", key)
