"""C11 - image iteration matches frame-by-frame rendering and leaks nothing."""
from __future__ import annotations

import gc
import io
import os

from simkit import drawworld as dw
from simkit import images
from simkit.core import Violation, check
from simkit.kernel import build_exc
from simkit.world import World

ID = "C11"
LEVEL = "fault_enumeration"
TECHNIQUE = ("deterministic simulation with fault enumeration: seeded operation histories over "
             "file / PIL / URL sources (in-process fake HTTP peer), a failure injected at the k-th "
             "PIL step of each kind for every k; open-file-count / temp-dir / PIL-state oracle at "
             "every operation boundary")
LEVEL_TEXT = ("Each sampled history (construct from file path, caller-owned PIL image or URL; "
              "str, format, draw, iterate with repeat/format/cache, seek, early close, abandon + "
              "collect, image close, with-block, n_frames) is run fault-free and then once per "
              "(PIL step kind in {open, convert, resize, save, tobytes, seek, new, "
              "alpha_composite, frombytes}, k) for EVERY k, plus a failing temp-file write. "
              "Yielded frames are compared with formatting the same frame of a twin image "
              "directly; tell() and size are tracked; after every operation the process's "
              "open-file count must equal baseline + live unexhausted iterators over file "
              "sources, the library temp dir must list exactly the files of open URL images, "
              "and caller-supplied PIL images must still be open on their original file object. "
              "Exhaustive over fault positions per history; histories are sampled.")
LEVEL_NOTE = ("Trusted: /proc/self/fd as the open-file count (single task, no other I/O), "
              "CPython reference counting (a count mismatch is re-checked after one gc.collect() "
              "so that only files kept alive by a live reference are reported), PIL decoding "
              "determinism. The observable is the open-file count named by the property, not "
              "ResourceWarnings.")
TIERS = {
    "quick": {"runs": 400, "max_ops": 10},
    "thorough": {"runs": 7000, "max_ops": 15, "wall_cap": 1700},
}
EXHAUSTIVE_INNER = True
RULE = ("history = <= max_ops seeded operations over 1-2 images (style per terminal profile, "
        "animated or still, source kind file / PIL file-backed / PIL memory-backed / URL with "
        "200-image, 200-garbage, 404 and connection-error outcomes); faults = every k-th PIL "
        "step of each kind raises, and the temp-file write fails; non-trivial = the history "
        "contains a fault, an early close, an abandoned iterator or a failed construction; "
        "distinct = hash of (history, fault)")
PROBES = ["image_size_changed_mid_iteration", "url_404", "url_garbage_body", "url_connection_error", "url_image_open",
          "iterator_abandoned_and_collected", "iterator_closed_early", "iterator_exhausted",
          "fault_in_convert", "fault_in_resize", "fault_in_save", "fault_in_seek",
          "fault_in_open", "caller_pil_image_survives", "animated_draw_keeps_tell",
          "image_closed_under_live_iterator", "two_seeks_without_next",
          "frame_equals_direct_format", "seek_then_next", "temp_write_failed", "gif_frame_equals_fresh_direct_format", "direct_format_equals_twin",
          "cached_resize_script", "resize_then_whole_pass", "terminal_resized_under_live_iterator"]
COMPONENTS = {
    "real": ["BaseImage (from_file, from_url, close, _get_image, _close_image, _renderer, "
             "_get_render_data, draw, _display_animated)", "ImageIterator",
             "Block/Kitty/ITerm2 _render_image", "PIL (decode, convert, resize, encode)"],
    "stub": ["HTTP peer (requests.get)", "terminal + queries (SimTTY/VTerm)", "stdout, clock",
             "fault injector around PIL entry points"],
}
ASSUMPTIONS = ["file descriptors are released by CPython as soon as the last reference to the "
               "file object dies", "terminal size is constant inside a world (resize histories "
               "for image iterators belong to C09)"]

PIL_KINDS = ["open", "convert", "resize", "save", "tobytes", "seek", "new", "alpha_composite",
             "frombytes"]
ERR = {"open": "OSError", "convert": "ValueError", "resize": "MemoryError", "save": "OSError",
       "tobytes": "MemoryError", "seek": "EOF", "new": "MemoryError",
       "alpha_composite": "ValueError", "frombytes": "ValueError"}


class PilSeams:
    """Counting / failing wrappers around the PIL entry points the library uses."""

    def __init__(self, k):
        self.k = k
        self.suspended = 0
        self.saved = []

    def __enter__(self):
        from PIL import Image
        k = self.k
        me = self

        def wrap(owner, name, kind):
            orig = getattr(owner, name)

            def w(*a, **kw):
                if not me.suspended:
                    k.seam("pil." + kind)
                return orig(*a, **kw)
            w.__name__ = name
            self.saved.append((owner, name, orig))
            setattr(owner, name, w)
        orig_open = Image.open
        me.opened = []

        def open_(*a, **kw):
            if me.suspended:
                return orig_open(*a, **kw)
            k.seam("pil.open")
            img = orig_open(*a, **kw)
            # NOTE: the harness deliberately keeps NO reference to images the library opens:
            # the observable of the property is the open-file count, and the unchanged library
            # leaves several paths (iterator closed before its first frame, the iterator built
            # by an animated draw, failures in seek) to reference counting. Holding the images
            # alive would turn every one of those into an alarm.
            return img
        self.saved.append((Image, "open", orig_open))
        Image.open = open_
        wrap(Image, "new", "new")
        wrap(Image, "frombytes", "frombytes")
        for meth in ("convert", "resize", "save", "tobytes", "alpha_composite"):
            wrap(Image.Image, meth, meth)
        orig_close = Image.Image.close
        me.closed_ids = []

        def close(self_):
            if not me.suspended:
                try:
                    self_._verif_closed_by_library = True
                except Exception:
                    pass
            return orig_close(self_)
        self.saved.append((Image.Image, "close", orig_close))
        Image.Image.close = close
        # format plugins override seek(): wrap the concrete classes the sources use
        from PIL import GifImagePlugin, WebPImagePlugin, PngImagePlugin

        def wrap_seek(owner):
            orig = owner.__dict__["seek"]

            def seek(self_, frame, *a, **kw):
                # the library probes for the end of an animation by seeking one past the last
                # frame and expects PIL's own EOFError there: that call fails by design, so it
                # is not a fault site
                if not me.suspended and 0 <= frame < getattr(self_, "n_frames", 1):
                    k.seam("pil.seek")
                return orig(self_, frame, *a, **kw)
            self.saved.append((owner, "seek", orig))
            owner.seek = seek
        for cls in (GifImagePlugin.GifImageFile, WebPImagePlugin.WebPImageFile,
                    PngImagePlugin.PngImageFile):
            if "seek" in cls.__dict__:
                wrap_seek(cls)
        return self

    def __exit__(self, *a):
        for owner, name, orig in reversed(self.saved):
            setattr(owner, name, orig)
        return False


class FakeResponse:
    def __init__(self, status, content):
        self.status_code = status
        self.content = content


class FakeRequests:
    def __init__(self, k):
        self.k = k
        self.routes = {}

    def __getattr__(self, name):
        import requests
        return getattr(requests, name)

    def get(self, url, **kw):
        self.k.seam("http.get")
        r = self.routes.get(url)
        if r is None or r[0] == "connerr":
            import requests
            raise requests.exceptions.ConnectionError("simulated: connection refused")
        return FakeResponse(r[0], r[1])


def pil_is_open(img):
    for fp in (getattr(img, "fp", None), getattr(img, "_fp", None)):
        try:
            if fp is not None and not fp.closed:
                return True
        except Exception:  # PIL's DeferredError placeholder after close()
            pass
    return False


def fd_count():
    return len(os.listdir("/proc/self/fd"))


class _Skip(Exception):
    """leave the current operation without further checks"""


def run(ch, ctx, fault=None):
    profile = dw.gen_draw_profile(ch)
    rows, cols = ch.int("rows", 6, 20), ch.int("cols", 8, 40)
    # "EOF" is raised as EOFError by the seek wrapper
    kfault = fault
    if fault and fault.get("exc") == "EOF":
        kfault = dict(fault, exc="ValueError")
    w = World(ctx, ch, kfault, rows=rows, cols=cols, profile=profile,
              cell_px=(ch.int("cw", 2, 6), ch.int("chh", 4, 10)), reuse=True)
    k, vt, out = w.k, w.vt, w.out
    k.log_seams = False
    http = FakeRequests(k)
    tmp_files = []
    with w, PilSeams(k) as pil:
        from PIL import Image
        from term_image import image as ti_image
        common = ti_image.common
        common.requests = http
        temp_dir = common._TEMP_DIR
        pname = profile.name.lower()
        styles = ["block"]
        if pname in ("kitty", "konsole"):
            styles.append("kitty")
        if pname in ("wezterm", "iterm2", "konsole"):
            styles.append("iterm2")
        # make support detection happen before the fd baseline is taken
        pil.suspended += 1
        for s in styles:
            {"block": ti_image.BlockImage, "kitty": ti_image.KittyImage,
             "iterm2": ti_image.ITerm2Image}[s].is_supported()
        w.utils.get_fg_bg_colors()
        w.utils.get_cell_size()
        pil.suspended -= 1
        for stale in os.listdir(temp_dir):  # left by an earlier (failed) world of this worker
            try:
                os.remove(os.path.join(temp_dir, stale))
            except OSError:
                pass
        gc.collect()
        baseline = fd_count()
        imgs = []     # dicts: image, twin, kind, pil (caller-owned), fp0, animated, n, url_file
        iters = []    # dicts: it, img (dict), entitled, closed, spec, expect_pos, started
        key = []
        ctx.op("terminal %dx%d cell=%s profile=%s %s styles=%s"
               % (cols, rows, vt.cell_px, profile.name, profile.version, styles))
        if fault:
            ctx.op("fault: %r" % (fault,))

        def harness_open():
            n = 0
            for d in imgs:
                p = d.get("pil")
                if p is not None and d["kind"] == "pil_file":
                    for fp in (getattr(p, "fp", None), getattr(p, "_fp", None)):
                        try:
                            is_open = fp is not None and not fp.closed
                        except Exception:  # PIL's DeferredError placeholder after close()
                            is_open = False
                        if is_open:
                            n += 1
                            break
            return n

        def boundary(desc, site):
            for d_ in imgs:
                p_ = d_.get("pil")
                if p_ is not None:
                    check(not getattr(p_, "_verif_closed_by_library", False),
                          "caller_supplied_pil_image_was_closed",
                          {"after": desc, "kind": d_["kind"], "fault": fault}, site)
            entitled = sum(1 for it in iters if it["entitled"] and not it["closed"])
            exp = baseline + harness_open() + entitled
            got = fd_count()
            if got != exp:
                gc.collect()
                got = fd_count()
            lo = baseline + harness_open()
            check(lo <= got <= exp, "open_file_count_differs_from_baseline",
                  {"after": desc, "open_files": got, "expected": exp, "baseline": baseline,
                   "live_file_iterators": sum(1 for it in iters if it["entitled"] and not it["closed"]),
                   "fault": fault}, site)
            want = {os.path.basename(d["image"]._source) for d in imgs
                    if d["kind"] == "url" and not d["image"].closed}
            have = set(os.listdir(temp_dir))
            check(have == want, "temp_dir_listing_differs_from_open_url_images",
                  {"after": desc, "extra": sorted(have - want), "missing": sorted(want - have),
                   "fault": fault}, site)
            for d in imgs:
                p = d.get("pil")
                if p is not None:
                    check(not getattr(p, "_verif_closed_by_library", False),
                          "caller_supplied_pil_image_was_closed",
                          {"after": desc, "kind": d["kind"], "fault": fault}, site)
                if not d["image"].closed:
                    sz = d["image"].size
                    check(sz == d["size0"] and type(sz) is type(d["size0"]),
                          "image_size_setting_changed",
                          {"after": desc, "size": repr(sz), "before": repr(d["size0"])}, site)

        script_dynamic = [False]

        def make_image():
            style = ch.pick("style", styles)
            cls = {"block": ti_image.BlockImage, "kitty": ti_image.KittyImage,
                   "iterm2": ti_image.ITerm2Image}[style]
            animated = ch.bool("animated", 0.7) or bool(script)
            n = ch.int("nframes", 2, 4) if animated else 1
            sw, sh = ch.int("sw", 1, 16), ch.int("sh", 1, 16)
            fmt = ch.pick("fmt", ("GIF", "WEBP", "WEBP")) if animated else "PNG"
            mode = ch.pick("mode", ("RGB", "RGBA", "P", "LA", "L"))
            data = images.anim_bytes(n, sw, sh, fmt) if animated else \
                images.still_bytes(sw, sh, mode)
            kind = ch.pick("srckind", ("file", "pil_file", "pil_mem", "url", "url"))
            kw = {}
            sizing = ch.pick("sizing", ("fit", "width", "both", "dynamic"))
            if script_dynamic[0]:
                sizing = "fit"
            dyn_member = None
            if sizing == "dynamic":
                dyn_member = ch.pick("dynmember", ("AUTO", "ORIGINAL", "FIT_TO_WIDTH"))
            if sizing == "width":
                kw = {"width": ch.int("iw", 1, min(8, cols))}
            elif sizing == "both":
                kw = {"width": ch.int("iw", 1, min(8, cols)), "height": ch.int("ih", 1, 4)}
            d = {"kind": kind, "animated": animated, "n": n, "style": style, "pil": None, "fmt": fmt,
                 "fp0": None, "cls": cls}
            desc = "%sImage <- %s (%s %dx%d, frames=%d, size=%s)" % (style, kind, fmt if animated
                                                                   else mode, sw, sh, n, kw or "FIT")
            outcome = "200"
            try:
                if kind == "file":
                    path = images.write_tmp(data, "." + fmt.lower())
                    tmp_files.append(path)
                    img = cls.from_file(path, **kw)
                elif kind == "pil_file":
                    path = images.write_tmp(data, "." + fmt.lower())
                    tmp_files.append(path)
                    pil.suspended += 1
                    p = Image.open(path)
                    if not animated:
                        p.load()
                    pil.suspended -= 1
                    d["pil"], d["fp0"] = p, getattr(p, "fp", None)
                    img = cls(p, **kw)
                elif kind == "pil_mem":
                    pil.suspended += 1
                    p = Image.open(io.BytesIO(data))
                    pil.suspended -= 1
                    d["pil"], d["fp0"] = p, getattr(p, "fp", None)
                    img = cls(p, **kw)
                else:
                    outcome = ch.weighted("http", [(6, "200"), (1, "garbage"), (1, "404"),
                                                   (1, "connerr")])
                    # different images whose URLs end in the same file name are common
                    # (.../cats/anim.gif, .../dogs/anim.gif)
                    url = "http://peer.test/dir%d/%s.%s" % (
                        len(imgs) + len(key), ch.pick("urlname", ("anim", "anim", "pic")),
                        fmt.lower())
                    http.routes[url] = {"200": (200, data), "garbage": (200, b"not an image" * 5),
                                        "404": (404, b""), "connerr": ("connerr", b"")}[outcome]
                    desc += " [http %s]" % outcome
                    img = cls.from_url(url, **kw)
            finally:
                pil.suspended = 0
            if kind == "url":
                ctx.probe("url_image_open")
            if dyn_member:
                img.size = getattr(ti_image.Size, dyn_member)
                desc += " size=Size.%s" % dyn_member
                if img.rendered_width * img.rendered_height > 300:
                    img.size = ti_image.Size.FIT
                    desc += " (too large: Size.FIT)"
            d["image"] = img
            d["size0"] = img.size
            d["desc"] = desc
            d["data"], d["kw"] = data, kw
            if animated:
                pil.suspended += 1
                tp = Image.open(io.BytesIO(data))
                pil.suspended -= 1
                twin = cls(tp, **kw)
                twin.size = img.size
                d["twin"] = twin
            imgs.append(d)
            return d, desc

        def direct_equals_twin(d, spec, got, desc):
            """formatting an animated image directly renders its current frame, whatever
            the image was constructed from"""
            if "twin" not in d or d["fmt"] != "WEBP" or "+A" in (spec or ""):
                return
            pil.suspended += 1
            try:
                d["twin"].seek(d["image"].tell())
                ref = str(d["twin"]) if spec is None else format(d["twin"], spec)
            finally:
                pil.suspended -= 1
            ctx.probe("direct_format_equals_twin")
            check(got == ref, "direct_format_is_not_the_current_frame",
                  {"op": desc, "frame": d["image"].tell(), "got": got[:160],
                   "expected": ref[:160]}, "format")

        def do_setsize(d):
            """one size change of an image (and of its twin)"""
            hist = d.setdefault("size_history", [d["size0"]])
            kind_ = ch.pick("szk", ("width", "both", "member", "earlier", "earlier"))
            if kind_ == "earlier":
                # going back to a size used before (A -> B -> A) is what exposes
                # stale cache entries
                prev = ch.pick("prev", hist)
                d["image"].size = prev
                desc = "%s.size = %r (used before)" % (d["desc"], prev)
            elif kind_ == "width":
                v = ch.int("nw", 1, min(8, cols))
                d["image"].set_size(width=v)
                desc = "%s.set_size(width=%d)" % (d["desc"], v)
            elif kind_ == "both":
                v = (ch.int("nw", 1, min(8, cols)), ch.int("nh", 1, 4))
                d["image"].set_size(*v)
                desc = "%s.set_size%s" % (d["desc"], v)
            else:
                mname = ch.pick("mname", ("FIT", "AUTO", "ORIGINAL", "FIT_TO_WIDTH"))
                d["image"].size = getattr(ti_image.Size, mname)
                desc = "%s.size = Size.%s" % (d["desc"], mname)
            try:
                big = d["image"].rendered_width * d["image"].rendered_height > 300
            except Exception:
                big = False
            if big:       # keep worlds cheap: every PIL step is a fault position
                d["image"].size = ti_image.Size.FIT
                desc += " (too large for this world: back to Size.FIT)"
            d["size0"] = d["image"].size
            if d["size0"] not in hist:
                hist.append(d["size0"])
            if "twin" in d:
                d["twin"].size = d["image"].size
            ctx.probe("image_size_changed_mid_iteration")
            return desc

        def do_next(itd):
            """one next() on a live iterator, checked against the frame model"""
            im = itd["img"]
            desc = "next(%s)" % itd["desc"]
            if itd.get("orphan") and not itd["closed"]:
                # iterator over a finalized image: it may yield, stop or fail - then it is over
                try:
                    next(itd["it"])
                    desc += " -> a frame (image already closed)"
                except StopIteration:
                    itd["closed"] = True
                    desc += " -> StopIteration (image already closed)"
                except Exception as e:
                    itd["closed"] = True
                    desc += " -> %s (image already closed)" % type(e).__name__
                return desc
            # model: frames 0..n-1 per pass (or the frame chosen by seek)
            if itd["closed"]:
                want = "stop"
            else:
                if itd["pos"] >= im["n"]:
                    itd["pos"] = 0
                    itd["pass"] += 1
                want = "stop" if 0 < itd["repeat"] <= itd["pass"] else itd["pos"]
            try:
                frame = next(itd["it"])
            except StopIteration:
                desc += " -> StopIteration"
                check(want == "stop", "iteration_ended_before_repeat_count",
                      {"iterator": itd["desc"], "passes": itd["pass"],
                       "expected_frame": want}, "next")
                if not itd["closed"]:
                    ctx.probe("iterator_exhausted")
                    if not im["image"].closed:
                        check(im["image"].tell() == 0,
                              "current_frame_not_zero_after_exhaustion",
                              {"tell": im["image"].tell(), "iterator": itd["desc"]},
                              "next")
                itd["closed"] = True
            else:
                check(want != "stop", "frame_yielded_after_documented_end",
                      {"iterator": itd["desc"], "passes": itd["pass"]}, "next")
                itd["started"] = True
                j = want
                desc += " -> frame %d" % j
                check(im["image"].tell() == j, "current_frame_does_not_track_iteration",
                      {"tell": im["image"].tell(), "expected": j, "iterator": itd["desc"]},
                      "next")
                # PIL decodes GIF frames into a mode (RGB / RGBA) that depends on which
                # earlier frames happened to be loaded, so byte equality with a twin
                # that has a different access history is only meaningful for formats
                # whose frames decode independently (WebP)
                if itd.get("pad_stale"):
                    pass
                elif "+A" not in itd["spec"] and im["fmt"] == "WEBP":
                    pil.suspended += 1
                    try:
                        im["twin"].seek(j)
                        ref = format(im["twin"], itd["spec"])
                    finally:
                        pil.suspended -= 1
                    ctx.probe("frame_equals_direct_format")
                    check(frame == ref, "iterated_frame_differs_from_direct_format",
                          {"frame": j, "pass": itd["pass"], "spec": itd["spec"],
                           "iterator": itd["desc"], "got": frame[:160],
                           "expected": ref[:160]}, "next")
                elif "+A" not in itd["spec"] and im["fmt"] == "GIF":
                    # for GIF the reference is a freshly opened copy taken to that frame:
                    # "formatting that frame directly"
                    pil.suspended += 1
                    try:
                        fresh = im["cls"](Image.open(io.BytesIO(im["data"])), **im["kw"])
                        fresh.size = im["image"].size
                        fresh.seek(j)
                        ref = format(fresh, itd["spec"])
                        fresh.close()
                    finally:
                        pil.suspended -= 1
                    ctx.probe("gif_frame_equals_fresh_direct_format")
                    check(frame == ref, "iterated_frame_differs_from_direct_format",
                          {"frame": j, "pass": itd["pass"], "spec": itd["spec"],
                           "iterator": itd["desc"], "got": frame[:160],
                           "expected": ref[:160]}, "next")
                itd["pos"] = j + 1
            return desc

        n_ops = ch.int("n_ops", 3, ctx.cfg["max_ops"])
        # some histories open with a fixed recipe: an animated image, a caching iterator over
        # it, one whole pass, then a resize followed by a second whole pass
        script = ["construct", "iterate", "pass", "resized_pass"] \
            if ch.bool("cached_resize_script", 0.2) else []
        if script and ch.bool("script_resizes_the_terminal", 0.4):
            # ... the second variant resizes the terminal instead (under an image whose size
            # follows it)
            script[-1] = "term_resize"
            script_dynamic[0] = True
        if script:
            n_ops = max(n_ops, 5)
            ctx.probe("cached_resize_script")
        for i in range(n_ops):
            choices_ = [(3 if len(imgs) < 2 else 0, "construct")]
            if imgs:
                choices_ += [(2, "str"), (2, "format"), (2, "draw"), (3, "iterate"), (1, "nframes"),
                             (1, "imgseek"), (1, "imgclose"), (1, "with"), (2, "setsize")]
            if iters:
                choices_ += [(9, "next"), (4, "pass"), (4, "resized_pass"), (3, "seek"), (2, "itclose"), (2, "abandon"),
                             (2, "term_resize")]
            op = ch.weighted("op", [c for c in choices_ if c[0]])
            if script:
                op = script.pop(0) if (imgs or script[0] == "construct") \
                    and (iters or script[0] in ("construct", "iterate")) else "construct"
            desc = op
            site = op
            exc = None
            fired0 = k.fault_done
            d = ch.pick("img", imgs) if imgs and op not in ("construct", "next", "pass", "seek", "resized_pass", "term_resize",
                                                           "itclose", "abandon") else None
            itd = ch.pick("iter", iters) if iters and op in ("next", "pass", "seek", "itclose", "resized_pass", "term_resize",
                                                            "abandon") else None
            expected_http_failure = None
            try:
                if op == "construct":
                    d, desc = make_image()
                elif op == "str":
                    desc = "str(%s)" % d["desc"]
                    if not d["image"].closed:
                        direct_equals_twin(d, None, str(d["image"]), desc)
                elif op == "format":
                    spec = ch.pick("spec", ("", "1.1", "<10.^3", "|8.-4#", ">.2##", "#ffffff"))
                    if d["style"] == "iterm2":
                        spec += ch.pick("sspec", ("", "+L", "+W", "+A", "+Wm1c9"))
                    elif d["style"] == "kitty":
                        spec += ch.pick("sspec", ("", "+L", "+W", "+Wz5m1c0"))
                    desc = "format(%s, %r)" % (d["desc"], spec)
                    if not d["image"].closed:
                        direct_equals_twin(d, spec, format(d["image"], spec), desc)
                elif op == "draw":
                    desc = "%s.draw(repeat=1)" % d["desc"]
                    if not d["image"].closed and ch.bool("too_wide_for_the_terminal", 0.15):
                        # a fixed size that cannot fit: the draw is refused (documented error) -
                        # whatever was opened on the way is closed again all the same
                        old_size = d["image"].size
                        d["image"].set_size(width=cols + ch.int("over", 1, 4))
                        desc = "%s.draw() at width %d on %d columns" % (
                            d["desc"], d["image"].size[0], cols)
                        ctx.probe("draw_refused_for_size")
                        try:
                            d["image"].draw()
                            raise Violation("oversized_draw_accepted", {"op": desc}, "draw")
                        finally:
                            d["image"].size = old_size
                    elif not d["image"].closed:
                        t0 = d["image"].tell()
                        d["image"].draw(pad_height=1, repeat=1, cached=ch.bool("dc", 0.5),
                                        check_size=False)
                        if d["animated"]:
                            ctx.probe("animated_draw_keeps_tell")
                            check(d["image"].tell() == t0, "animated_draw_changed_current_frame",
                                  {"op": desc, "tell": d["image"].tell(), "before": t0}, "draw")
                elif op == "iterate":
                    if not d["animated"] or d["image"].closed:
                        continue
                    repeat = ch.pick("repeat", (1, 2, -1))
                    spec = ch.pick("ispec", ("", "1.1", "<6.^3", "#"))
                    if d["style"] != "block":
                        spec += ch.pick("isspec", ("", "+L", "+W"))
                    cached = ch.pick("cached", (False, True, 100))
                    how = ch.pick("how", ("ctor", "ctor", "iter"))
                    if script:
                        # every frame is cached and there is a second pass to serve from it
                        repeat, cached, how = (2 if repeat == 1 else repeat), cached or True, "ctor"
                    desc = "%s(%s, repeat=%d, spec=%r, cached=%r)" % (
                        "ImageIterator" if how == "ctor" else "iter", d["desc"], repeat, spec,
                        cached)
                    if how == "iter":
                        it = iter(d["image"])
                        repeat, spec = 1, "1.1"
                    else:
                        it = ti_image.ImageIterator(d["image"], repeat, spec, cached)
                    iters.append({"it": it, "img": d, "entitled": d["kind"] in ("file", "url"),
                                  "closed": False, "spec": spec, "pos": 0, "repeat": repeat,
                                  "pass": 0, "desc": desc, "started": False})
                    del it
                elif op == "setsize":
                    if d["image"].closed:
                        continue
                    desc = do_setsize(d)
                elif op == "term_resize":
                    # the terminal is resized under a live iterator: images with a dynamic size
                    # follow it, frames cached at the old size are not served any more
                    cols = max(8, min(40, cols + ch.pick("dcols", (-3, -2, 2, 3, 5))))
                    rows = max(6, min(20, rows + ch.pick("drows", (-2, 0, 0, 2))))
                    vt.resize(rows, cols)
                    desc = "terminal resized to %dx%d" % (cols, rows)
                    for other in iters:
                        # (a format specifier without a padding width means "the terminal's
                        # width" - the width at the time the iterator was made)
                        if other["spec"].split("+")[0] in ("", "#"):
                            other["pad_stale"] = True
                    ctx.probe("terminal_resized_under_live_iterator")
                    site = "next"
                    if not itd.get("orphan") and not itd["img"]["image"].closed:
                        for _ in range(itd["img"]["n"]):
                            desc = do_next(itd)
                            if itd["closed"]:
                                break
                elif op == "resized_pass":
                    # the image is resized between two passes of a live iterator: cached
                    # frames of the old size are re-rendered on the way
                    d = itd["img"]
                    if itd.get("orphan") or d["image"].closed:
                        continue
                    site = "next"
                    desc = do_setsize(d)
                    ctx.probe("resize_then_whole_pass")
                    for _ in range(d["n"]):
                        desc = do_next(itd)
                        if itd["closed"]:
                            break
                elif op == "nframes":
                    desc = "%s.n_frames" % d["desc"]
                    if not d["image"].closed:
                        check(d["image"].n_frames == d["n"], "n_frames_wrong",
                              {"got": d["image"].n_frames, "expected": d["n"]}, "nframes")
                elif op == "imgseek":
                    if not d["animated"] or d["image"].closed:
                        continue
                    if any(it["img"] is d and not it["closed"] for it in iters):
                        continue  # do not fight a live iterator over the current frame
                    pos = ch.int("pos", 0, d["n"] - 1)
                    desc = "%s.seek(%d)" % (d["desc"], pos)
                    d["image"].seek(pos)
                elif op in ("imgclose", "with"):
                    orphans = [it for it in iters if it["img"] is d and not it["closed"]]
                    if orphans and not ch.bool("close_under_live_iterator", 0.5):
                        continue
                    desc = "%s: %s" % ("with-block exit" if op == "with" else "close()", d["desc"])
                    if orphans:
                        # the image is finalized while an iterator over it is still open: what
                        # that iterator yields from now on is nobody's business, but the file it
                        # opened must still be released when it is closed / exhausted / dropped,
                        # and a caller's PIL image must still not be touched
                        desc += " [%d live iterator(s)]" % len(orphans)
                        ctx.probe("image_closed_under_live_iterator")
                        ctx.nontrivial = True
                        for it in orphans:
                            it["orphan"] = True
                    if op == "with":
                        with d["image"]:
                            pass
                    else:
                        d["image"].close()
                        d["image"].close()
                    check(d["image"].closed, "image_not_closed", {"op": desc}, op)
                elif op == "next":
                    site = "next"
                    desc = do_next(itd)
                elif op == "pass":
                    # a whole pass over the frames in one operation (reaches third passes and
                    # loop boundaries within the operation budget)
                    site = "next"
                    for _ in range(itd["img"]["n"]):
                        desc = do_next(itd)
                        if itd["closed"]:
                            break
                elif op == "seek":
                    im = itd["img"]
                    pos = ch.int("spos", -1, im["n"]) if ch.bool("badpos", 0.2) else ch.int("spos", 0, im["n"] - 1)
                    desc = "%s.seek(%d)" % (itd["desc"], pos)
                    if not itd.get("orphan") and itd["started"] and not itd["closed"] \
                            and not im["image"].closed and ch.bool("seek_twice", 0.3):
                        # the application changes its mind before the next frame is taken:
                        # the last seek counts
                        first = ch.int("spos0", 0, im["n"] - 1)
                        itd["it"].seek(first)
                        itd["pos"] = first      # (it stands if the second one is rejected)
                        desc = "%s.seek(%d); .seek(%d)" % (itd["desc"], first, pos)
                        ctx.probe("two_seeks_without_next")
                    if itd.get("orphan"):
                        try:        # iterator over a finalized image: nothing is promised
                            itd["it"].seek(pos)
                        except Exception:
                            pass
                        raise _Skip()
                    try:
                        itd["it"].seek(pos)
                        ok = True
                    except Exception as e:
                        if k.fault_done and not fired0:
                            raise
                        ok = False
                        got = type(e).__name__
                    valid = 0 <= pos < im["n"]
                    if im["image"].closed:
                        check(not ok, "seek_on_iterator_of_a_closed_image_accepted",
                              {"pos": pos, "iterator": itd["desc"]}, "seek")
                    elif not valid:
                        check(not ok and got == "ValueError", "out_of_range_seek_accepted",
                              {"pos": pos, "iterator": itd["desc"]}, "seek")
                    elif itd["closed"] or not itd["started"]:
                        check(not ok and got == "TermImageError", "seek_on_unstarted_or_closed",
                              {"pos": pos, "ok": ok, "got": None if ok else got,
                               "closed": itd["closed"], "started": itd["started"],
                               "iterator": itd["desc"]}, "seek")
                    else:
                        check(ok, "valid_seek_rejected", {"pos": pos, "iterator": itd["desc"]},
                              "seek")
                        itd["pos"] = pos
                        ctx.probe("seek_then_next")
                        if "; .seek(" in desc:
                            # (after two seeks in a row the frame is taken right away)
                            site = "next"
                            op = "next"      # (a failure from here on is a failed next())
                            desc = desc + "; " + do_next(itd)
                elif op == "itclose":
                    desc = "%s.close()" % itd["desc"]
                    if not itd["closed"]:
                        ctx.probe("iterator_closed_early")
                        ctx.nontrivial = True
                    itd["it"].close()
                    itd["it"].close()
                    itd["closed"] = True
                else:
                    desc = "abandon %s, collect" % itd["desc"]
                    iters.remove(itd)
                    if not itd["closed"]:
                        ctx.probe("iterator_abandoned_and_collected")
                        ctx.nontrivial = True
                    itd["it"] = None
                    itd = None
                    gc.collect()
            except Violation:
                raise
            except _Skip:
                pass
            except BaseException as e:  # noqa: B902
                exc = e
            finally:
                pil.suspended = 0
            fault_here = k.fault_done and not fired0
            ctx.op("%s%s" % (desc, " -> raised %r" % (exc,) if exc is not None else ""))
            key.append((desc, type(exc).__name__ if exc is not None else None))
            if exc is not None:
                if fault_here and fault["kind"] in ("pil.convert", "pil.resize") or \
                        op == "draw" and type(exc).__name__ == "InvalidSizeError":
                    # the conversion / resize step closes what it was working on itself
                    # (try/finally in the library): that must not wait for the caller to drop
                    # the exception - `exc` and its traceback are still alive here
                    entitled_now = sum(1 for it in iters if it["entitled"] and not it["closed"]
                                       and it is not itd)
                    got_now = fd_count()
                    hi = baseline + harness_open() + entitled_now + (
                        1 if itd is not None and itd["entitled"] else 0)
                    check(got_now <= hi, "image_file_left_open_by_failed_conversion_step",
                          {"op": desc, "open_files": got_now, "allowed": hi, "fault": fault},
                          site)
                name = type(exc).__name__
                legit = False
                if op == "construct" and not fault_here:
                    last = list(http.routes.values())[-1][0] if http.routes else None
                    if name == "URLNotFoundError" and last == 404:
                        ctx.probe("url_404")
                        legit = True
                    elif name == "UnidentifiedImageError":
                        ctx.probe("url_garbage_body")
                        legit = True
                    elif name == "ConnectionError":
                        ctx.probe("url_connection_error")
                        legit = True
                if op == "draw" and name in ("InvalidSizeError", "ValueError") and not fault_here:
                    legit = True  # documented size validation (C06's business)
                if legit or fault_here:
                    ctx.nontrivial = True
                    if fault_here:
                        fk = fault["kind"].split(".")[-1]
                        if fk in ("convert", "resize", "save", "seek", "open"):
                            ctx.probe("fault_in_" + fk)
                        if fault["kind"] == "tmp.write":
                            ctx.probe("temp_write_failed")
                    if op in ("next", "pass", "resized_pass", "term_resize") and itd is not None:
                        itd["closed"] = True
                        itd["errored"] = True
                else:
                    raise Violation("unexpected_exception_without_fault",
                                    {"op": desc, "exc": repr(exc)}, site)
                exc = None
            boundary(desc, site)
        # ------------------------------------------------------------------ end of history
        for it in iters:
            it["it"] = None
        iters.clear()
        itd = None
        for d in imgs:
            p = d.get("pil")
            if p is not None and d["animated"]:
                pil.suspended += 1
                try:
                    p.seek(0)
                    p.load()
                    ctx.probe("caller_pil_image_survives")
                except Exception as e:
                    raise Violation("caller_supplied_pil_image_unusable",
                                    {"exc": repr(e), "kind": d["kind"]}, "end")
                finally:
                    pil.suspended -= 1
            d["image"].close()
            if "twin" in d:
                d["twin"].close()
        pil.suspended += 1
        for d in imgs:
            p = d.get("pil")
            if p is not None:
                p.close()
        pil.suspended -= 1
        imgs_n = len(imgs)
        imgs.clear()
        d = None
        gc.collect()
        got = fd_count()
        check(got == baseline, "open_file_count_does_not_return_to_baseline",
              {"open_files": got, "baseline": baseline, "images": imgs_n, "fault": fault}, "end")
        have = set(os.listdir(temp_dir))
        check(not have, "temp_file_left_behind", {"extra": sorted(have)}, "end")
        ctx.extra["counts"] = {kk: v for kk, v in k.counts.items()
                               if kk.startswith("pil.") or kk == "tmp.write"}
        ctx.key(key, fault)
        ctx.log("trace", key)
    for p in tmp_files:
        try:
            os.remove(p)
        except OSError:
            pass


def faults(ctx, ch):
    out = []
    for kind, n in sorted(ctx.extra.get("counts", {}).items()):
        short = kind.split(".")[-1]
        for kk in range(1, n + 1):
            if kind == "tmp.write":
                out.append({"kind": kind, "k": kk, "when": "before", "exc": "ENOSPC"})
                # construction also "fails" when the download is interrupted while the private
                # copy is being written (before or after the bytes went out)
                out.append({"kind": kind, "k": kk, "when": "before", "exc": "KeyboardInterrupt"})
                out.append({"kind": kind, "k": kk, "when": "after", "exc": "KeyboardInterrupt"})
            else:
                exc = ERR[short]
                out.append({"kind": kind, "k": kk, "when": "before",
                            "exc": "ValueError" if exc == "EOF" else exc})
                if kk % 2 == 0 and short not in ("seek", "open"):
                    # the type of the failure must not matter to the clean-up (the image
                    # iterator itself catches AttributeError for its own purposes); not at
                    # seek: PIL probes `is_animated` / `n_frames` by seeking inside property
                    # getters, where Python itself turns an AttributeError into "no such
                    # attribute"
                    out.append({"kind": kind, "k": kk, "when": "before", "exc": "AttributeError"})
    return out
