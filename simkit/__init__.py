"""simkit: deterministic simulation kit for term-image (see /verif/DESIGN.md)."""
