"""Deterministic generated image sources (still and animated) for the old-API worlds."""
from __future__ import annotations

import io
import os


def frame_color(i):
    return ((37 * i + 20) % 256, (200 - 47 * i) % 256, (90 + 71 * i) % 256)


def make_still(w, h, mode="RGB", variant=0):
    from PIL import Image
    base = Image.new("RGBA", (w, h))
    px = base.load()
    for y in range(h):
        for x in range(w):
            a = 255
            if mode in ("RGBA", "LA", "PA") and (x + y + variant) % 3 == 0:
                a = 0 if (x + y) % 2 else 120
            px[x, y] = ((x * 53 + variant * 17) % 256, (y * 91 + 30) % 256,
                        ((x + y) * 29 + variant) % 256, a)
    if mode == "RGBA":
        return base
    return base.convert(mode)


def still_bytes(w, h, mode="RGB", fmt="PNG", variant=0):
    img = make_still(w, h, mode, variant)
    if fmt == "JPEG":
        img = img.convert("RGB")
    bio = io.BytesIO()
    img.save(bio, fmt)
    return bio.getvalue()


def _noise(im, seed):
    """Deterministic pixel noise so that payloads do not compress to nothing."""
    px = im.load()
    w, h = im.size
    x = (seed * 2654435761 + 12345) & 0xFFFFFFFF
    for yy in range(h):
        for xx in range(w):
            x = (x * 1103515245 + 12345) & 0x7FFFFFFF
            px[xx, yy] = ((x >> 16) & 255, (x >> 8) & 255, x & 255)


def noisy_still_bytes(w, h, fmt="PNG", seed=1):
    from PIL import Image
    im = Image.new("RGB", (w, h))
    _noise(im, seed)
    bio = io.BytesIO()
    im.save(bio, fmt)
    return bio.getvalue()


def anim_bytes(n, w, h, fmt="GIF", duration=40, variant=0):
    """n-frame animation; frame i is (nearly) solid frame_color(i) with an i-dependent
    corner so that frames are pairwise distinct after any quantisation."""
    from PIL import Image
    frames = []
    for i in range(n):
        im = Image.new("RGB", (w, h), frame_color(i + variant))
        px = im.load()
        px[i % w, (i // w) % h] = (255, 255, 255)
        px[w - 1, h - 1] = (0, 0, 0) if i % 2 else (250, 250, 0)
        frames.append(im)
    bio = io.BytesIO()
    if fmt == "GIF":
        frames[0].save(bio, "GIF", save_all=True, append_images=frames[1:], duration=duration,
                       loop=0)
    else:
        frames[0].save(bio, "WEBP", save_all=True, append_images=frames[1:], duration=duration,
                       lossless=True)
    return bio.getvalue()


def write_tmp(data, suffix):
    import tempfile
    fd, path = tempfile.mkstemp(suffix=suffix)
    os.write(fd, data)
    os.close(fd)
    return path
