"""Deterministic generated image sources (still and animated) for the old-API worlds."""
from __future__ import annotations

import io
import os


def frame_color(i):
    return ((37 * i + 20) % 256, (200 - 47 * i) % 256, (90 + 71 * i) % 256)


def make_still(w, h, mode="RGB", variant=0):
    from PIL import Image
    base = Image.new("RGBA", (w, h))
    px = base.load()
    for y in range(h):
        for x in range(w):
            a = 255
            if mode in ("RGBA", "LA", "PA") and (x + y + variant) % 3 == 0:
                a = 0 if (x + y) % 2 else 120
            px[x, y] = ((x * 53 + variant * 17) % 256, (y * 91 + 30) % 256,
                        ((x + y) * 29 + variant) % 256, a)
    if mode == "RGBA":
        return base
    return base.convert(mode)


def still_bytes(w, h, mode="RGB", fmt="PNG", variant=0):
    img = make_still(w, h, mode, variant)
    if fmt == "JPEG":
        img = img.convert("RGB")
    bio = io.BytesIO()
    img.save(bio, fmt)
    return bio.getvalue()


def anim_bytes(n, w, h, fmt="GIF", duration=40, variant=0):
    """n-frame animation; frame i is (nearly) solid frame_color(i) with an i-dependent
    corner so that frames are pairwise distinct after any quantisation."""
    from PIL import Image
    frames = []
    for i in range(n):
        im = Image.new("RGB", (w, h), frame_color(i + variant))
        px = im.load()
        px[i % w, (i // w) % h] = (255, 255, 255)
        px[w - 1, h - 1] = (0, 0, 0) if i % 2 else (250, 250, 0)
        frames.append(im)
    bio = io.BytesIO()
    if fmt == "GIF":
        frames[0].save(bio, "GIF", save_all=True, append_images=frames[1:], duration=duration,
                       loop=0)
    else:
        frames[0].save(bio, "WEBP", save_all=True, append_images=frames[1:], duration=duration,
                       lossless=True)
    return bio.getvalue()


def write_tmp(data, suffix):
    import tempfile
    fd, path = tempfile.mkstemp(suffix=suffix)
    os.write(fd, data)
    os.close(fd)
    return path
