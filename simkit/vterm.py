"""VTerm: terminal emulator model (peer and oracle).  See DESIGN.md 2.4.

A VT500-style parser driving a cell grid, cursor, SGR state, modes, kitty graphics
placements, iTerm2 inline images and a query responder.  Everything is deterministic.
"""
from __future__ import annotations

import base64
import hashlib
import io
import zlib

GROUND, ESC, CSI, OSC, DCS, APC, SOS, CHARSET = range(8)

BLANK = (" ", None, None, None)


def marker(r, c):
    return ("\0", r, c, None)


class Profile:
    """Identity and capabilities of the simulated terminal."""

    def __init__(self, name="xterm", version="370", xtversion_fmt="paren",
                 answers=("da1", "xtversion", "osc10", "osc11", "14t", "16t"),
                 fg=(0xFFFF, 0xFFFF, 0xFFFF), bg=(0, 0, 0), hex_widths=(4, 4, 4, 4, 4, 4),
                 osc_term="ST", kitty_graphics=False, iterm2_images=None,
                 kitty_version=None):
        self.name = name
        self.version = version
        self.xtversion_fmt = xtversion_fmt  # "paren": name(version)  "space": name version
        self.answers = set(answers)
        self.fg = fg            # 16-bit components
        self.bg = bg
        self.hex_widths = hex_widths  # per component digits (fg r,g,b, bg r,g,b)
        self.osc_term = osc_term
        self.kitty_graphics = kitty_graphics
        # None / "cells" (iterm2, wezterm: image becomes cell content) / "placement" (konsole)
        self.iterm2_images = iterm2_images
        self.kitty_version = kitty_version
        self.hex_case = "lower"   # XParseColor accepts hex digits in either case

    def describe(self):
        return {"name": self.name, "version": self.version, "fmt": self.xtversion_fmt,
                "answers": sorted(self.answers), "fg": list(self.fg), "bg": list(self.bg),
                "hexw": list(self.hex_widths), "hexcase": self.hex_case, "term": self.osc_term,
                "kitty": self.kitty_graphics, "iterm2": self.iterm2_images}

    def color_spec(self, which):
        comps = self.fg if which == 10 else self.bg
        widths = self.hex_widths[:3] if which == 10 else self.hex_widths[3:]
        parts = []
        for v16, w in zip(comps, widths):
            # XParseColor: an n-digit value is the most significant n nibbles
            parts.append("%0*x" % (w, v16 >> (16 - 4 * w)))
        if self.hex_case == "upper":
            parts = [p.upper() for p in parts]
        elif self.hex_case == "mixed":
            parts = [p.upper() if i % 2 else p for i, p in enumerate(parts)]
        return "rgb:" + "/".join(parts)

    def expected_color(self, which):
        comps = self.fg if which == 10 else self.bg
        widths = self.hex_widths[:3] if which == 10 else self.hex_widths[3:]
        out = []
        for v16, w in zip(comps, widths):
            v = v16 >> (16 - 4 * w)
            out.append(v * 255 // ((1 << (4 * w)) - 1))
        return tuple(out)


class Placement:
    __slots__ = ("serial", "kind", "row", "col", "rows", "cols", "z", "digest", "px")

    def __init__(self, serial, kind, row, col, rows, cols, z, digest, px):
        self.serial = serial
        self.kind = kind
        self.row = row
        self.col = col
        self.rows = rows
        self.cols = cols
        self.z = z
        self.digest = digest
        self.px = px

    def key(self):
        return (self.kind, self.row, self.col, self.rows, self.cols, self.z, self.digest)

    def intersects(self, r0, c0, r1, c1):
        """Half-open rectangle [r0,r1) x [c0,c1)."""
        return (self.row < r1 and r0 < self.row + self.rows
                and self.col < c1 and c0 < self.col + self.cols)


class VTerm:
    def __init__(self, rows=24, cols=80, profile=None, cell_px=(8, 16), prefill=True):
        self.rows = rows
        self.cols = cols
        self.profile = profile or Profile()
        self.cell_px = cell_px          # (w, h) pixels per cell
        self.report_px = True           # whether 14t/16t (and ioctl) know pixels
        self.grid = [[marker(r, c) if prefill else BLANK for c in range(cols)]
                     for r in range(rows)]
        self.r = 0
        self.c = 0
        self.wrap_pending = False
        self.autowrap = True
        self.insert_mode = False
        self.cursor_visible = True
        self.synced = False
        self.fg = None
        self.bg = None
        self.attrs = frozenset()
        self.saved = None
        self.scroll_count = 0
        self.top = 0
        self.bot = rows - 1
        self.modes = {}
        self.placements = []
        self.serial = 0
        self.state = GROUND
        self.buf = bytearray()
        self.str_esc = False
        self.u8 = bytearray()
        self.u8_need = 0
        # kitty chunked transfer in progress
        self.k_pending = None
        # statistics / oracle inputs
        self.errors = []
        self.unknown = []
        self.images = 0
        self.hide_show = 0
        self.bytes_fed = 0
        self.sync_violations = 0
        self.outside_sync_bytes = 0
        self.swallowed = 0
        self.chunked_transfers = 0
        self.reply = None  # callback(kind:str, data:bytes)
        self.title = None
        self.alt = False
        self.bell = 0

    # ------------------------------------------------------------------ helpers

    def err(self, what):
        if len(self.errors) < 50:
            self.errors.append(what)

    def resize(self, rows, cols):
        new = [[BLANK for _ in range(cols)] for _ in range(rows)]
        for r in range(min(rows, self.rows)):
            for c in range(min(cols, self.cols)):
                new[r][c] = self.grid[r][c]
        self.grid = new
        self.rows, self.cols = rows, cols
        self.top, self.bot = 0, rows - 1
        self.r = min(self.r, rows - 1)
        self.c = min(self.c, cols - 1)
        self.wrap_pending = False

    def in_ground(self):
        return self.state == GROUND and not self.u8_need and self.k_pending is None

    def sgr_default(self):
        return self.fg is None and self.bg is None and not self.attrs

    # ------------------------------------------------------------------ grid ops

    def blank(self):
        return (" ", None, self.bg, None)

    def scroll_up(self, n=1):
        for _ in range(n):
            if self.top == 0 and self.bot == self.rows - 1:
                self.grid.pop(0)
                self.grid.append([self.blank() for _ in range(self.cols)])
                self.scroll_count += 1
                keep = []
                for p in self.placements:
                    p.row -= 1
                    if p.row + p.rows > 0:
                        keep.append(p)
                self.placements = keep
            else:
                del self.grid[self.top]
                self.grid.insert(self.bot, [self.blank() for _ in range(self.cols)])

    def scroll_down(self, n=1):
        for _ in range(n):
            del self.grid[self.bot]
            self.grid.insert(self.top, [self.blank() for _ in range(self.cols)])
            if self.top == 0 and self.bot == self.rows - 1:
                keep = []
                for p in self.placements:
                    p.row += 1
                    if p.row < self.rows:
                        keep.append(p)
                self.placements = keep

    def linefeed(self):
        if self.r == self.bot:
            self.scroll_up()
        elif self.r < self.rows - 1:
            self.r += 1
        self.wrap_pending = False

    def reverse_index(self):
        if self.r == self.top:
            self.scroll_down()
        elif self.r > 0:
            self.r -= 1
        self.wrap_pending = False

    def put(self, ch):
        if self.wrap_pending:
            if self.autowrap:
                self.c = 0
                self.linefeed()
            self.wrap_pending = False
        row = self.grid[self.r]
        if self.insert_mode:
            row.insert(self.c, None)
            row.pop()
        row[self.c] = (ch, self.fg, self.bg, self.attrs or None)
        if self.c >= self.cols - 1:
            self.wrap_pending = True
        else:
            self.c += 1

    def erase_cells(self, r, c0, c1):
        row = self.grid[r]
        b = self.blank()
        for c in range(max(0, c0), min(self.cols, c1)):
            row[c] = b

    # ------------------------------------------------------------------ feeding

    def feed(self, data):
        self.bytes_fed += len(data)
        for b in data:
            self._byte(b)

    def _byte(self, b):
        st = self.state
        if st == GROUND:
            if self.u8_need:
                if 0x80 <= b <= 0xBF:
                    self.u8.append(b)
                    self.u8_need -= 1
                    if not self.u8_need:
                        try:
                            ch = bytes(self.u8).decode("utf-8")
                        except UnicodeDecodeError:
                            ch = "�"
                        self.u8.clear()
                        self.put(ch)
                    return
                # incomplete glyph: replacement char, then process b normally
                self.u8.clear()
                self.u8_need = 0
                self.put("�")
            if b >= 0x20 and b != 0x7F:
                if b < 0x80:
                    self.put(chr(b))
                elif 0xC2 <= b <= 0xDF:
                    self.u8[:] = bytes([b])
                    self.u8_need = 1
                elif 0xE0 <= b <= 0xEF:
                    self.u8[:] = bytes([b])
                    self.u8_need = 2
                elif 0xF0 <= b <= 0xF4:
                    self.u8[:] = bytes([b])
                    self.u8_need = 3
                else:
                    self.put("�")
                return
            self._c0(b)
            return
        if st == ESC:
            self._esc(b)
            return
        if st == CSI:
            if b < 0x20:
                if b == 0x1B:
                    self.state = ESC
                    self.buf.clear()
                elif b in (0x18, 0x1A):
                    self.state = GROUND
                else:
                    self._c0(b)
                return
            if 0x20 <= b <= 0x3F:
                self.buf.append(b)
                if len(self.buf) > 256:
                    self.state = GROUND
                return
            if 0x40 <= b <= 0x7E:
                self.state = GROUND
                self._csi(bytes(self.buf), chr(b))
                return
            self.state = GROUND  # 0x7f / 8-bit: abort
            return
        if st == CHARSET:
            self.state = GROUND
            return
        # string states
        if self.str_esc:
            self.str_esc = False
            if b == 0x5C:  # ST
                kind = st
                self.state = GROUND
                self._string(kind, bytes(self.buf))
                return
            # Pessimistic model (what kitty/konsole do and what the library's interrupt
            # handlers are written for): only ST (BEL for OSC, CAN/SUB) ends a control
            # string; ESC + anything else is swallowed into it.
            if b == 0x1B:
                self.str_esc = True
            elif b in (0x18, 0x1A):
                self.err("string cancelled")
                self.state = GROUND
            elif b == 0x07 and st == OSC:
                self.state = GROUND
                self._string(OSC, bytes(self.buf))
            else:
                self.swallowed += 2
                if len(self.buf) < (1 << 22):
                    self.buf.append(0x1B)
                    self.buf.append(b)
            return
        if b == 0x1B:
            self.str_esc = True
            return
        if b == 0x07 and st == OSC:
            self.state = GROUND
            self._string(OSC, bytes(self.buf))
            return
        if b in (0x18, 0x1A):
            self.err("string cancelled")
            self.state = GROUND
            return
        self.buf.append(b)

    def _c0(self, b):
        if b == 0x0A or b == 0x0B or b == 0x0C:
            self.linefeed()
        elif b == 0x0D:
            self.c = 0
            self.wrap_pending = False
        elif b == 0x08:
            if self.c > 0:
                self.c -= 1
            self.wrap_pending = False
        elif b == 0x09:
            self.c = min(self.cols - 1, (self.c // 8 + 1) * 8)
            self.wrap_pending = False
        elif b == 0x1B:
            self.state = ESC
            self.buf.clear()
        elif b == 0x07:
            self.bell += 1
        # NUL, SO, SI, others: ignored

    def _esc(self, b):
        if b < 0x20:
            if b == 0x1B:
                self.state = ESC
            elif b in (0x18, 0x1A):
                self.state = GROUND
            else:
                self._c0(b)
                self.state = ESC
            return
        self.state = GROUND
        ch = chr(b)
        if ch == "[":
            self.state = CSI
            self.buf.clear()
        elif ch == "]":
            self.state = OSC
            self.buf.clear()
            self.str_esc = False
        elif ch == "P":
            self.state = DCS
            self.buf.clear()
            self.str_esc = False
        elif ch == "_":
            self.state = APC
            self.buf.clear()
            self.str_esc = False
        elif ch in "X^":
            self.state = SOS
            self.buf.clear()
            self.str_esc = False
        elif ch in "()*+-./%#":
            self.state = CHARSET
        elif ch == "7":
            self.saved = (self.r, self.c, self.fg, self.bg, self.attrs)
        elif ch == "8":
            if self.saved:
                self.r, self.c, self.fg, self.bg, self.attrs = self.saved
                self.r = min(self.r, self.rows - 1)
                self.c = min(self.c, self.cols - 1)
            self.wrap_pending = False
        elif ch == "D":
            self.linefeed()
        elif ch == "M":
            self.reverse_index()
        elif ch == "E":
            self.c = 0
            self.linefeed()
        elif ch == "c":
            self.__init__(self.rows, self.cols, self.profile, self.cell_px, prefill=False)
        elif ch == "\\":
            pass  # stray ST
        # '=', '>', others: ignored

    # ------------------------------------------------------------------ CSI

    @staticmethod
    def _params(s, default=0):
        out = []
        for p in s.split(";"):
            p = p.split(":")[0]
            out.append(int(p) if p.isdigit() else default)
        return out

    def _csi(self, raw, final):
        s = raw.decode("latin-1")
        private = ""
        while s and s[0] in "?><=":
            private += s[0]
            s = s[1:]
        inter = ""
        while s and 0x20 <= ord(s[-1]) <= 0x2F:
            inter = s[-1] + inter
            s = s[:-1]
        ps = self._params(s) if s else []

        def p(i, d=1):
            v = ps[i] if i < len(ps) else 0
            return v if v else d

        if private == "" and inter == "":
            if final == "A":
                self.r = max(self.top if self.r >= self.top else 0, self.r - p(0))
                self.wrap_pending = False
            elif final in "Be":
                self.r = min(self.bot if self.r <= self.bot else self.rows - 1, self.r + p(0))
                self.wrap_pending = False
            elif final in "Ca":
                self.c = min(self.cols - 1, self.c + p(0))
                self.wrap_pending = False
            elif final == "D":
                self.c = max(0, self.c - p(0))
                self.wrap_pending = False
            elif final == "E":
                self.r = min(self.rows - 1, self.r + p(0))
                self.c = 0
                self.wrap_pending = False
            elif final == "F":
                self.r = max(0, self.r - p(0))
                self.c = 0
                self.wrap_pending = False
            elif final in "G`":
                self.c = min(self.cols - 1, p(0) - 1)
                self.wrap_pending = False
            elif final == "d":
                self.r = min(self.rows - 1, p(0) - 1)
                self.wrap_pending = False
            elif final in "Hf":
                self.r = min(self.rows - 1, p(0) - 1)
                self.c = min(self.cols - 1, p(1) - 1)
                self.wrap_pending = False
            elif final == "J":
                mode = ps[0] if ps else 0
                if mode == 0:
                    self.erase_cells(self.r, self.c, self.cols)
                    for r in range(self.r + 1, self.rows):
                        self.erase_cells(r, 0, self.cols)
                elif mode == 1:
                    for r in range(0, self.r):
                        self.erase_cells(r, 0, self.cols)
                    self.erase_cells(self.r, 0, self.c + 1)
                elif mode in (2, 3):
                    for r in range(self.rows):
                        self.erase_cells(r, 0, self.cols)
                    if mode == 2:
                        self.placements = []
            elif final == "K":
                mode = ps[0] if ps else 0
                if mode == 0:
                    self.erase_cells(self.r, self.c, self.cols)
                elif mode == 1:
                    self.erase_cells(self.r, 0, self.c + 1)
                elif mode == 2:
                    self.erase_cells(self.r, 0, self.cols)
            elif final == "X":
                self.erase_cells(self.r, self.c, self.c + p(0))
            elif final == "@":
                n = min(p(0), self.cols - self.c)
                row = self.grid[self.r]
                for _ in range(n):
                    row.insert(self.c, self.blank())
                    row.pop()
            elif final == "P":
                n = min(p(0), self.cols - self.c)
                row = self.grid[self.r]
                for _ in range(n):
                    del row[self.c]
                    row.append(self.blank())
            elif final == "L":
                if self.top <= self.r <= self.bot:
                    for _ in range(min(p(0), self.bot - self.r + 1)):
                        del self.grid[self.bot]
                        self.grid.insert(self.r, [self.blank() for _ in range(self.cols)])
            elif final == "M":
                if self.top <= self.r <= self.bot:
                    for _ in range(min(p(0), self.bot - self.r + 1)):
                        del self.grid[self.r]
                        self.grid.insert(self.bot, [self.blank() for _ in range(self.cols)])
            elif final == "S":
                self.scroll_up(p(0))
            elif final == "T":
                self.scroll_down(p(0))
            elif final == "m":
                self._sgr(s)
            elif final == "h" or final == "l":
                for v in ps:
                    if v == 4:
                        self.insert_mode = final == "h"
                    else:
                        self.modes[v] = final == "h"
            elif final == "r":
                t = p(0) - 1
                b = (ps[1] if len(ps) > 1 and ps[1] else self.rows) - 1
                if 0 <= t < b < self.rows:
                    self.top, self.bot = t, b
                self.r, self.c = 0, 0
                self.wrap_pending = False
            elif final == "s":
                self.saved = (self.r, self.c, self.fg, self.bg, self.attrs)
            elif final == "u":
                if self.saved:
                    self.r, self.c = min(self.saved[0], self.rows - 1), min(self.saved[1], self.cols - 1)
                self.wrap_pending = False
            elif final == "c":
                if not ps or ps[0] == 0:
                    self._respond("da1", b"\x1b[?62;4;22c")
            elif final == "t":
                self._xtwinops(ps)
            elif final == "n":
                if ps and ps[0] == 6:
                    self._respond("dsr", b"\x1b[%d;%dR" % (self.r + 1, self.c + 1))
                elif ps and ps[0] == 5:
                    self._respond("dsr", b"\x1b[0n")
            else:
                self.unknown.append("CSI %s %s" % (s, final))
        elif private == "?" and inter == "" and final in "hl":
            on = final == "h"
            for v in ps:
                if v == 25:
                    self.cursor_visible = on
                    self.hide_show += 1
                elif v == 2026:
                    if on and self.synced:
                        self.sync_violations += 1
                    self.synced = on
                elif v == 7:
                    self.autowrap = on
                elif v in (1049, 47, 1047):
                    self.alt = on
                else:
                    self.modes["?%d" % v] = on
        elif private == "?" and inter == "$" and final == "p":
            n = ps[0] if ps else 0
            known = {25: 1 if self.cursor_visible else 2, 7: 1 if self.autowrap else 2,
                     2026: 1 if self.synced else 2}
            self._respond("decrqm", b"\x1b[?%d;%d$y" % (n, known.get(n, 0)))
        elif private == ">" and final == "q":
            pr = self.profile
            if pr.xtversion_fmt == "paren":
                body = "%s(%s)" % (pr.name, pr.version)
            else:
                body = "%s %s" % (pr.name, pr.version)
            self._respond("xtversion", b"\x1bP>|" + body.encode() + b"\x1b\\")
        elif private == ">" and final == "c":
            self._respond("da2", b"\x1b[>1;10;0c")
        else:
            self.unknown.append("CSI %s%s%s %s" % (private, s, inter, final))

    def _xtwinops(self, ps):
        if not ps:
            return
        if ps[0] == 14 and self.report_px:
            self._respond("14t", b"\x1b[4;%d;%dt" % (self.rows * self.cell_px[1],
                                                     self.cols * self.cell_px[0]))
        elif ps[0] == 16 and self.report_px:
            self._respond("16t", b"\x1b[6;%d;%dt" % (self.cell_px[1], self.cell_px[0]))
        elif ps[0] == 18:
            self._respond("18t", b"\x1b[8;%d;%dt" % (self.rows, self.cols))

    def _sgr(self, s):
        items = s.split(";") if s else ["0"]
        i = 0
        attrs = set(self.attrs)
        while i < len(items):
            it = items[i]
            if ":" in it:
                sub = it.split(":")
                code = int(sub[0]) if sub[0].isdigit() else 0
                if code in (38, 48) and len(sub) >= 2 and sub[1] == "2":
                    nums = [int(x) if x.isdigit() else 0 for x in sub[2:]]
                    rgb = tuple(nums[-3:]) if len(nums) >= 3 else (0, 0, 0)
                    if code == 38:
                        self.fg = rgb
                    else:
                        self.bg = rgb
                elif code in (38, 48) and len(sub) >= 3 and sub[1] == "5":
                    v = ("idx", int(sub[2]) if sub[2].isdigit() else 0)
                    if code == 38:
                        self.fg = v
                    else:
                        self.bg = v
                else:
                    attrs.add(it)
                i += 1
                continue
            code = int(it) if it.isdigit() else 0
            if code == 0:
                self.fg = self.bg = None
                attrs.clear()
            elif code in (38, 48):
                if i + 1 < len(items) and items[i + 1] == "2":
                    nums = [int(x) if x.isdigit() else 0 for x in items[i + 2:i + 5]]
                    nums += [0] * (3 - len(nums))
                    if code == 38:
                        self.fg = tuple(nums)
                    else:
                        self.bg = tuple(nums)
                    i += 4
                elif i + 1 < len(items) and items[i + 1] == "5":
                    v = ("idx", int(items[i + 2]) if i + 2 < len(items) and items[i + 2].isdigit() else 0)
                    if code == 38:
                        self.fg = v
                    else:
                        self.bg = v
                    i += 2
            elif code == 39:
                self.fg = None
            elif code == 49:
                self.bg = None
            elif 30 <= code <= 37 or 90 <= code <= 97:
                self.fg = ("idx", code)
            elif 40 <= code <= 47 or 100 <= code <= 107:
                self.bg = ("idx", code)
            elif code in (22,):
                attrs.discard(1)
                attrs.discard(2)
            elif code in (23, 24, 25, 27, 28, 29):
                attrs.discard(code - 20)
            else:
                attrs.add(code)
            i += 1
        self.attrs = frozenset(attrs)

    # ------------------------------------------------------------------ strings

    def _respond(self, kind, data):
        if kind in ("dsr", "18t", "da2") or kind in self.profile.answers:
            if self.reply is not None:
                self.reply(kind, data)

    def _string(self, kind, data):
        if kind == OSC:
            self._osc(data)
        elif kind == APC:
            if data[:1] == b"G":
                self._kitty(data[1:])
            else:
                self.unknown.append("APC %r" % data[:20])
        # DCS / SOS / PM: consumed

    def _osc(self, data):
        head, _, rest = data.partition(b";")
        if head in (b"10", b"11") and rest == b"?":
            which = int(head)
            term = b"\x1b\\" if self.profile.osc_term == "ST" else b"\x07"
            self._respond("osc%d" % which,
                          b"\x1b]%d;" % which + self.profile.color_spec(which).encode() + term)
        elif head == b"1337":
            if rest.startswith(b"File="):
                self._iterm2(rest[5:])
            else:
                self.unknown.append("OSC 1337 %r" % rest[:20])
        elif head in (b"0", b"1", b"2"):
            self.title = rest.decode("utf-8", "replace")
        else:
            self.unknown.append("OSC %r" % data[:30])

    # -- kitty graphics

    def _kitty(self, data):
        ctrl, _, payload = data.partition(b";")
        keys = {}
        if ctrl:
            for kv in ctrl.split(b","):
                k, eq, v = kv.partition(b"=")
                if not eq or not k:
                    self.err("kitty: malformed control %r" % ctrl[:60])
                    return
                keys[k.decode("latin-1")] = v.decode("latin-1")
        if not self.profile.kitty_graphics:
            return  # terminal ignores APC
        if self.k_pending is not None:
            # continuation chunk: only m (and q) are allowed to matter
            if any(k not in ("m", "q") for k in keys):
                self.err("kitty: new command while a chunked transfer is pending: %r" % ctrl[:60])
                self.k_pending = None
                # fall through and treat as a fresh command
            else:
                self.k_pending["payload"] += payload
                if keys.get("m", "0") == "1":
                    if len(payload) % 4:
                        self.err("kitty: non-final chunk not a multiple of 4")
                    return
                pend, self.k_pending = self.k_pending, None
                self._kitty_exec(pend["keys"], bytes(pend["payload"]))
                return
        action = keys.get("a", "t")
        if set(keys) <= {"m", "q"} and "a" not in keys:
            # e.g. the library's KITTY_END_CHUNKED with nothing pending: harmless no-op
            return
        if len(payload) > 4096:
            self.err("kitty: chunk longer than 4096")
        if keys.get("m", "0") == "1":
            if len(payload) % 4:
                self.err("kitty: non-final chunk not a multiple of 4")
            self.k_pending = {"keys": keys, "payload": bytearray(payload)}
            self.chunked_transfers += 1
            return
        self._kitty_exec(keys, payload)

    def _kitty_exec(self, keys, payload):
        action = keys.get("a", "t")
        if action == "q":
            i = keys.get("i", "0")
            ok = True
            try:
                raw = base64.b64decode(payload, validate=True)
                f = int(keys.get("f", "32"))
                if f in (24, 32):
                    ok = len(raw) == int(keys.get("s", 0)) * int(keys.get("v", 0)) * (f // 8)
            except Exception:
                ok = False
            msg = b"OK" if ok else b"EINVAL:bad query"
            self._respond_kitty(b"\x1b_Gi=" + i.encode() + b";" + msg + b"\x1b\\")
            return
        if action == "d":
            self._kitty_delete(keys)
            return
        if action in ("T", "t", "p"):
            try:
                raw = base64.b64decode(payload, validate=True)
            except Exception:
                self.err("kitty: payload is not valid base64")
                return
            if keys.get("o") == "z":
                try:
                    raw = zlib.decompress(raw)
                except zlib.error:
                    self.err("kitty: payload does not decompress")
                    return
            try:
                f = int(keys.get("f", "32"))
                s = int(keys.get("s", "0"))
                v = int(keys.get("v", "0"))
            except ValueError:
                self.err("kitty: non-integer f/s/v")
                return
            if f in (24, 32):
                if s <= 0 or v <= 0 or len(raw) != s * v * (f // 8):
                    self.err("kitty: payload length %d != s*v*bpp = %d*%d*%d"
                             % (len(raw), s, v, f // 8))
                    return
            elif f == 100:
                try:
                    from PIL import Image
                    with Image.open(io.BytesIO(raw)) as im:
                        s, v = im.size
                except Exception:
                    self.err("kitty: PNG payload undecodable")
                    return
            else:
                self.err("kitty: unknown format %r" % f)
                return
            self.images += 1
            if action == "t":
                return
            try:
                cols = int(keys.get("c", "0"))
                rows = int(keys.get("r", "0"))
                z = int(keys.get("z", "0"))
            except ValueError:
                self.err("kitty: non-integer c/r/z")
                return
            if not -(2 ** 31) <= z < 2 ** 31:
                self.err("kitty: z out of int32")
                return
            if cols <= 0:
                cols = max(1, -(-s // self.cell_px[0]))
            if rows <= 0:
                rows = max(1, -(-v // self.cell_px[1]))
            self.serial += 1
            dig = hashlib.sha1(raw).hexdigest()[:16]
            self._add_placement(Placement(self.serial, "kitty", self.r, self.c, rows,
                                          cols, z, dig, (s, v)))
            if keys.get("C", "0") != "1":
                # cursor moves: right by cols, down by rows-1 (scrolling as needed)
                for _ in range(rows - 1):
                    self.linefeed()
                self.c = min(self.cols - 1, self.c + cols)
            return
        self.err("kitty: unsupported action %r" % action)

    def _add_placement(self, p):
        if self.profile.name.lower() == "konsole":
            # Konsole drops placements that a new one covers completely (the library
            # relies on this: it never clears animation frames on Konsole)
            self.placements = [q for q in self.placements
                               if not (p.row <= q.row and p.col <= q.col
                                       and q.row + q.rows <= p.row + p.rows
                                       and q.col + q.cols <= p.col + p.cols)]
        self.placements.append(p)

    def _respond_kitty(self, data):
        if self.reply is not None:
            self.reply("kitty", data)

    def _kitty_delete(self, keys):
        d = keys.get("d", "a")
        low = d.lower()
        if low == "a":
            self.placements = []
        elif low == "c":
            self.placements = [p for p in self.placements
                               if not p.intersects(self.r, self.c, self.r + 1, self.c + 1)]
        elif low == "z":
            try:
                z = int(keys.get("z", "0"))
            except ValueError:
                self.err("kitty: delete with non-integer z")
                return
            self.placements = [p for p in self.placements if p.z != z]
        elif low == "i":
            pass
        else:
            self.err("kitty: unsupported delete %r" % d)

    # -- iTerm2 inline images

    def _iterm2(self, data):
        mode = self.profile.iterm2_images
        args, colon, payload = data.partition(b":")
        if not colon:
            self.err("iterm2: no ':' payload separator")
            return
        keys = {}
        for kv in args.split(b";"):
            if not kv:
                continue
            k, eq, v = kv.partition(b"=")
            keys[k.decode("latin-1")] = v.decode("latin-1")
        if mode is None:
            return
        try:
            raw = base64.b64decode(payload, validate=True)
        except Exception:
            self.err("iterm2: payload is not valid base64")
            return
        if "size" in keys:
            if not keys["size"].isdigit() or int(keys["size"]) != len(raw):
                self.err("iterm2: size=%s but payload has %d bytes" % (keys["size"], len(raw)))
                return
        if keys.get("inline") != "1":
            return
        try:
            from PIL import Image
            with Image.open(io.BytesIO(raw)) as im:
                px = im.size
                im.load()
        except Exception:
            self.err("iterm2: payload does not decode as an image")
            return
        self.images += 1

        def dim(val, cell, pxs, total):
            if val is None or val == "auto":
                return max(1, -(-pxs // cell))
            if val.endswith("px"):
                return max(1, -(-int(val[:-2]) // cell))
            if val.endswith("%"):
                return max(1, total * int(val[:-1]) // 100)
            return max(1, int(val))
        try:
            w = dim(keys.get("width"), self.cell_px[0], px[0], self.cols)
            h = dim(keys.get("height"), self.cell_px[1], px[1], self.rows)
        except ValueError:
            self.err("iterm2: bad width/height")
            return
        dig = hashlib.sha1(raw).hexdigest()[:16]
        self.serial += 1
        if mode == "placement":
            self._add_placement(Placement(self.serial, "iterm2", self.r, self.c, h, w, 0,
                                          dig, px))
            if keys.get("doNotMoveCursor") != "1":
                for _ in range(h - 1):
                    self.linefeed()
                self.c = min(self.cols - 1, self.c + w)
            return
        # "cells": the image becomes cell content; cursor ends on the last row, just
        # past the last column, scrolling as needed.
        c0 = self.c
        if self.wrap_pending:
            self.wrap_pending = False
        if keys.get("doNotMoveCursor") == "1":
            for dy in range(h):
                if self.r + dy >= self.rows:
                    break
                for dx in range(w):
                    if c0 + dx < self.cols:
                        self.grid[self.r + dy][c0 + dx] = ("\1", dig, (dx, dy), None)
            return
        for dy in range(h):
            for dx in range(w):
                if c0 + dx < self.cols:
                    self.grid[self.r][c0 + dx] = ("\1", dig, (dx, dy), None)
            if dy < h - 1:
                self.linefeed()
        self.c = min(self.cols - 1, c0 + w)
        self.wrap_pending = c0 + w >= self.cols

    # ------------------------------------------------------------------ oracle views

    def snapshot(self):
        return {
            "grid": [list(row) for row in self.grid],
            "placements": sorted(p.key() for p in self.placements),
            "cursor": (self.r, self.c),
            "visible": self.cursor_visible,
            "sgr": (self.fg, self.bg, self.attrs),
        }

    def region(self, r0, c0, r1, c1):
        return [list(self.grid[r][c0:c1]) for r in range(r0, r1)]

    def placement_keys(self, rel=None):
        if rel is None:
            return sorted(p.key() for p in self.placements)
        r0, c0 = rel
        return sorted((p.kind, p.row - r0, p.col - c0, p.rows, p.cols, p.z, p.digest)
                      for p in self.placements)

    def dump(self, r0=0, r1=None):
        out = []
        for r in range(r0, self.rows if r1 is None else r1):
            line = []
            for cell in self.grid[r]:
                ch = cell[0]
                if ch == "\0":
                    line.append(".")
                elif ch == "\1":
                    line.append("#")
                else:
                    line.append(ch if cell[1:] == (None, None, None) or ch != " " else "_")
            out.append("".join(line))
        return out
