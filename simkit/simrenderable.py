"""SimRenderable: the instrumented concrete Renderable used by C06-C10, C13.

The repository has no concrete new-API renderable, so the harness defines one that
follows the extension API exactly as documented.  Its output is a function of what it
was handed (frame number, size, args, duration) so every frame is attributable.
"""
from __future__ import annotations


class Hooks:
    """Per-world instrumentation shared by all SimRenderable instances of a world."""

    def __init__(self, kernel=None):
        self.kernel = kernel
        self.next_token = 0
        self.final_count = {}      # token -> number of _finalize_render_data_ calls
        self.render_log = []       # (token, frame, size, char, duration, finalized_at_entry)
        self.render_cost_ns = None  # callable(frame) -> ns, or None
        self.used_finalized = 0
        self.interrupted_calls = 0
        self.stream_seeks = []     # (offset, whence) handed to an INDEFINITE stream
        self.on_render = None      # callable() invoked from inside _render_ (once, then reset)
        self.finalize_seam = False  # True: _finalize_render_data_ is a fault seam ("finalize")


def frame_output(frame, size, char, duration, shift=0):
    w, h = size
    lines = []
    for y in range(h):
        text = "".join(chr(65 + (frame + x + 3 * y) % 26) for x in range(w))
        if w:
            text = char + text[1:]
        lines.append("\x1b[38;2;%d;%d;%dm%s\x1b[0m"
                     % (frame % 256, duration % 256, (ord(char) + shift) % 256, text))
    return "\n".join(lines)


def make(ti_renderable, hooks):
    """Create a fresh SimRenderable class (with Args and _Data_ namespaces) bound to the
    freshly imported ``term_image.renderable`` module."""
    R = ti_renderable
    Renderable, FrameCount, FrameDuration, Seek, Frame = (
        R.Renderable, R.FrameCount, R.FrameDuration, R.Seek, R.Frame)

    class SimRenderable(Renderable):
        def __init__(self, frame_count, frame_duration, size, stream_len=0, postponed=False):
            # postponed: the frame count is only worked out when somebody first asks for it
            self._postponed_count = frame_count
            super().__init__(FrameCount.POSTPONED if postponed else frame_count, frame_duration)
            self._size_ = size
            self.stream_len = stream_len

        def _get_frame_count_(self):
            return self._postponed_count

        def _get_render_size_(self):
            return self._size_

        def _get_render_data_(self, *, iteration):
            render_data = super()._get_render_data_(iteration=iteration)
            hooks.next_token += 1
            tok = hooks.next_token
            hooks.final_count[tok] = 0
            render_data[SimRenderable].update(token=tok, pos=0)
            return render_data

        @classmethod
        def _finalize_render_data_(cls, render_data):
            tok = render_data[SimRenderable].token
            hooks.final_count[tok] = hooks.final_count.get(tok, 0) + 1
            if hooks.finalize_seam and hooks.kernel is not None:
                # a user-supplied finalizer is caller code: it may fail or be interrupted
                hooks.kernel.seam("finalize", tok)
            super()._finalize_render_data_(render_data)

        def _handle_interrupted_draw_(self, render_data, render_args, output):
            hooks.interrupted_calls += 1
            output.write("\x1b[0m")
            output.flush()

        def _render_(self, render_data, render_args):
            rd = render_data[Renderable]
            own = render_data[SimRenderable]
            tok = own.token
            fin = render_data.finalized
            if fin:
                hooks.used_finalized += 1
            k = hooks.kernel
            if hooks.on_render is not None:
                cb, hooks.on_render = hooks.on_render, None
                cb()
            if k is not None:
                k.seam("render", rd.frame_offset)
            char = render_args[SimRenderable].char
            shift = render_args[SimRenderable].shift
            size = rd.size
            if not self.animated:
                frame_no, duration = 0, 0
            elif self._frame_count is FrameCount.INDEFINITE:
                if not rd.iteration:
                    frame_no = 0
                else:
                    off, wh = rd.frame_offset, rd.seek_whence
                    if off or wh != Seek.CURRENT:
                        hooks.stream_seeks.append((tok, off, int(wh)))
                    if wh == Seek.START:
                        own.pos = off
                    elif wh == Seek.CURRENT:
                        own.pos = max(0, own.pos + off)
                    else:
                        own.pos = max(0, self.stream_len - 1 + off)
                    if own.pos >= self.stream_len:
                        raise StopIteration
                    frame_no = own.pos
                    own.pos += 1
                d = rd.duration
                duration = 10 * (frame_no + 1) if d is FrameDuration.DYNAMIC else d
            else:
                frame_no = rd.frame_offset
                d = rd.duration
                duration = 10 * (frame_no + 1) if d is FrameDuration.DYNAMIC else d
            hooks.render_log.append((tok, frame_no, tuple(size), char, duration, fin))
            if k is not None:
                if hooks.render_cost_ns is not None:
                    c = hooks.render_cost_ns(frame_no)
                    if c:
                        k.advance(c)
                k.seam_after("render")
            return Frame(frame_no, duration, size,
                         frame_output(frame_no, size, char, duration, shift))

    class SimArgs(R.ArgsNamespace, render_cls=SimRenderable):
        char: str = "#"
        shift: int = 0      # int-valued: -1 and -2 are distinct values with equal hashes
        tag: object = None  # ignored by the render; may hold an unhashable value

    class SimData(R.DataNamespace, render_cls=SimRenderable):
        token: int
        pos: int

    SimRenderable.SimArgs = SimArgs
    return SimRenderable
