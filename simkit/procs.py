"""Simulated processes for C14 / C15: per-process copies of term_image.utils, simulated
multiprocessing primitives (SemLock-backed RLock, Array) and fork / spawn of namespaces.

The library's own import-time code installs its Process.start/run wrappers; the harness
captures them, restores the real class and points ``wrapper.__wrapped__`` at the
simulated start/run below.  multiprocessing itself is a stub; the locking logic, the
wrappers and the import-time patching are the library's real code.
"""
from __future__ import annotations

import functools
import multiprocessing
import multiprocessing.context
import os
import sys
import threading
import types

from . import tty as simtty
from . import world as simworld
from .core import HarnessError, Violation
from .kernel import NS

_CODE = {}


class SimSemRLock:
    """multiprocessing.RLock stand-in: shared between simulated processes."""

    kind = "process"
    _n = 0

    def __init__(self, kernel, name=None):
        SimSemRLock._n += 1
        self.k = kernel
        self.owner = None
        self.count = 0
        self.name = name or "mp_rlock"
        self.acquisitions = 0

    def _me(self):
        cur = self.k.current
        return "inline" if cur is None else cur.tid

    def acquire(self, block=True, timeout=None):
        k = self.k
        k.seam("lock.acquire", self.name)
        me = self._me()
        if self.owner == me:
            self.count += 1
            return True
        if self.owner is not None:
            if not block:
                return False
            k.contended += 1
            deadline = None if timeout is None else k.now + int(timeout * NS)
            k.block_until(lambda: self.owner is None, deadline, "mplock:" + self.name)
            if self.owner is not None:
                return False
        self.owner = me
        self.count = 1
        self.acquisitions += 1
        if k.log_seams:
            k.ctx.log("locked", self.name, me)
        return True

    def release(self):
        me = self._me()
        if self.owner != me:
            raise AssertionError("attempt to release recursive lock not owned by thread")
        self.count -= 1
        if self.count == 0:
            self.owner = None
            if self.k.log_seams:
                self.k.ctx.log("unlocked", self.name, me)
            self.k.seam("lock.release", self.name)

    __enter__ = acquire

    def __exit__(self, *a):
        self.release()


class SimArray:
    """multiprocessing.Array('i', seq) stand-in (shared by reference)."""

    def __init__(self, kernel, typecode, seq):
        self.k = kernel
        self._data = [int(x) for x in seq]
        self._lock = SimSemRLock(kernel, "array_lock")

    def get_lock(self):
        return self._lock

    def __len__(self):
        return len(self._data)

    def __getitem__(self, i):
        return self._data[i]

    def __setitem__(self, i, v):
        if isinstance(i, slice):
            v = list(v)
            if len(self._data[i]) != len(v):
                raise ValueError("Can only assign sequence of same size")
        self._data[i] = v

    def __iter__(self):
        return iter(self._data)


def _mp_rlock_factory():
    # creating a process-shared lock allocates a semaphore: it can fail (EMFILE, ENOSPC, ...)
    simworld.current_kernel().seam("mp.rlock")
    return SimSemRLock(simworld.current_kernel(), "tty_mp_lock")


def _mp_array_factory(typecode, seq):
    k = simworld.current_kernel()
    if getattr(k, "no_sharedctypes", False):
        # an interpreter built without ctypes: shared arrays cannot be had (process-shared
        # locks, which need only the semaphore module, still can)
        raise ImportError("No module named '_ctypes'")
    return SimArray(k, typecode, seq)


_mp_rlock_factory._sim_factory = "rlock"
_mp_array_factory._sim_factory = "array"


class SimProcessObject:
    """What the library's wrappers see as ``self`` (a multiprocessing.Process)."""

    def __init__(self, target, name):
        self.target = target
        self.name = name
        self._started = False


class Proc:
    def __init__(self, pid, utils, parent, method):
        self.pid = pid
        self.utils = utils
        self.parent = parent
        self.method = method
        self.tasks = []


class ProcWorld:
    """Adds simulated processes to a World (process 0 = the canonical import)."""

    def __init__(self, world, prewrapped=False):
        """``prewrapped``: every process of this world imports the library after some other
        package (a tracer, a logger) has put its own ``functools.wraps`` wrapper around
        ``Process.start``; process 0 then is a fresh execution of utils.py as well."""
        self.w = world
        self.k = world.k
        self.procs = []
        k = self.k
        self.prewrapped = prewrapped
        if prewrapped:
            def third_party_start(po, *args, **kwargs):
                return third_party_start.__wrapped__(po, *args, **kwargs)

            self.third_party_start = functools.wraps(simworld._PROC_START)(third_party_start)
            u0 = self._load_copy()
            self.third_party_start.__wrapped__ = self._sim_start
        else:
            u0 = world.utils
            self._patch_mp(u0.__dict__)
            u0._process_start_wrapper.__wrapped__ = self._sim_start
            u0._process_run_wrapper.__wrapped__ = self._sim_run
            u0._installed_start = u0._process_start_wrapper
            u0._installed_run = u0._process_run_wrapper
        self.p0 = Proc(0, u0, None, None)
        self.procs.append(self.p0)
        self.current_proc = {}   # task tid -> Proc
        self.starts = 0
        self.k.ctx.extra.setdefault("procs", 1)

    def _patch_mp(self, d):
        """Replace multiprocessing.RLock / Array by factories bound (late) to the kernel of
        the world that is active when they are called."""
        for gname, val in list(d.items()):
            try:
                if val == multiprocessing.RLock or getattr(val, "_sim_factory", "") == "rlock":
                    d[gname] = _mp_rlock_factory
                elif val == multiprocessing.Array or getattr(val, "_sim_factory", "") == "array":
                    d[gname] = _mp_array_factory
            except Exception:
                pass

    # -- namespaces ---------------------------------------------------------------------

    def _load_copy(self):
        """A fresh execution of utils.py under the name term_image.utils."""
        path = os.path.join(simworld.src_dir(), "term_image", "utils.py")
        code = _CODE.get(path)
        if code is None:
            with open(path) as fp:
                code = compile(fp.read(), path, "exec")
            _CODE[path] = code
        mod = types.ModuleType("term_image.utils")
        mod.__file__ = path
        mod.__package__ = "term_image"
        counter = [0]

        def rlock_factory():
            counter[0] += 1
            return simworld.SimRLock(simworld.current_kernel, "rlock-copy%d" % counter[0])

        old_stdout = sys.__stdout__
        pty = simworld._pty
        sys.__stdout__ = simworld._FakeStd(pty[1])
        threading.RLock = rlock_factory
        if self.prewrapped:
            multiprocessing.context.Process.start = self.third_party_start
        try:
            exec(code, mod.__dict__)
            # what Process.start / Process.run are once this process has imported the library
            mod._installed_start = multiprocessing.context.Process.start
            mod._installed_run = multiprocessing.context.Process.run
        finally:
            threading.RLock = simworld._real["RLock"]
            sys.__stdout__ = old_stdout
            multiprocessing.context.Process.start = simworld._PROC_START
            multiprocessing.context.Process.run = simworld._PROC_RUN
        if mod._tty_fd != -1:
            try:
                os.close(mod._tty_fd)
            except OSError:
                pass
        mod._tty_fd = simtty.FD_TTY
        # seams
        import fcntl as real_fcntl
        import termios as real_termios
        tty, k = self.w.tty, self.k
        real = simworld._real
        table = [
            (real["monotonic"], k.monotonic), (real["select"], simtty.make_select(tty)),
            (real["get_terminal_size"], simtty.make_shutil_size(tty)),
            (os, simtty.FakeOS(tty)), (real_termios, simtty.FakeTermios(tty)),
            (real_fcntl, simtty.FakeFcntl(tty)),
        ]
        d = mod.__dict__
        for gname, val in list(d.items()):
            for r, f in table:
                if val is r:
                    d[gname] = f
                    break
        self._patch_mp(d)
        mod._process_start_wrapper.__wrapped__ = self._sim_start
        mod._process_run_wrapper.__wrapped__ = self._sim_run
        return mod

    def me(self):
        cur = self.k.current
        if cur is None:
            return self.p0
        return self.current_proc.get(cur.tid, self.p0)

    # -- start / run -----------------------------------------------------------------------

    def start_process(self, target, method, name):
        """Called by a task: the simulated ``Process(target=...).start()``."""
        parent = self.me()
        po = SimProcessObject(target, name)
        po._method = method
        po._parent = parent
        self.starts += 1
        # this is what Process.start is after the library patched it
        start = parent.utils._installed_start
        if start is simworld._PROC_START:
            start = self._sim_start         # (nobody wrapped it: the multiprocessing stub)
        start(po)
        return po

    def _sim_start(self, po):
        """Replacement for the original Process.start (multiprocessing stub)."""
        parent = po._parent
        k = self.k
        k.seam("proc.start", po.name)
        # executing the module body of the child's copy is one atomic step (it swaps
        # process-global interpreter state while it runs): no pre-emption inside
        tr = sys.gettrace()
        sys.settrace(None)
        try:
            child_utils = self._load_copy()
        finally:
            sys.settrace(tr)
        if po._method == "fork":
            pu = parent.utils
            for g in ("_tty_lock", "_cell_size_lock", "_cell_size_cache", "_queries_enabled",
                      "_swap_win_size", "_query_timeout"):
                val = getattr(pu, g)
                if isinstance(val, simworld.SimRLock):
                    # a thread-level lock is memory of one process: the forked child has a copy
                    # of its own (process-shared locks and arrays stay shared)
                    val = simworld.SimRLock(simworld.current_kernel, val.name + "@child")
                setattr(child_utils, g, val)
        child = Proc(len(self.procs), child_utils, parent, po._method)
        self.procs.append(child)
        self.k.ctx.extra["procs"] = len(self.procs)

        def child_main():
            self.current_proc[k.current.tid] = child
            # (what travels to the child with the Process object: a thread-level lock arrives
            # as a lock of the child's own, whatever the start method)
            lk = getattr(po, "_tty_lock", None)
            if isinstance(lk, simworld.SimRLock):
                po._tty_lock = simworld.SimRLock(simworld.current_kernel, lk.name + "@child")
            # what Process.run is after the library patched it (in the child)
            run = child.utils._installed_run
            if run is simworld._PROC_RUN:
                run = self._sim_run
            run(po)

        t = k.spawn(child_main, "p%d-main" % child.pid, child.pid)
        child.tasks.append(t)
        po._started = True
        po._child = child

    def _sim_run(self, po):
        po.target(self, po._child if hasattr(po, "_child") else self.me())

    def spawn_thread(self, fn, name):
        """A new thread in the calling task's process."""
        proc = self.me()

        def body():
            self.current_proc[self.k.current.tid] = proc
            return fn()

        t = self.k.spawn(body, name, proc.pid)
        proc.tasks.append(t)
        return t


def make_tracer(kernel, src_prefix, every=1):
    """sys.settrace function: a yield point at every line executed in term_image code."""
    def local(frame, event, arg):
        if event == "line":
            kernel.yield_point("line")
        return local

    def tracer(frame, event, arg):
        if event == "call" and frame.f_code.co_filename.startswith(src_prefix):
            return local
        return None
    return tracer
