"""Shared machinery of C06 / C07: draw scenarios (both APIs) and the screen oracle."""
from __future__ import annotations

import io
import re

from . import simrenderable
from .core import Violation, check
from .kernel import NS
from .models import IDENTITIES
from .vterm import Profile, VTerm, marker

DRAW_PROFILES = [
    # (name, version, fmt, kitty graphics, iterm2 mode)
    ("kitty", "0.25.0", "paren", True, None),     # old kitty: clears frames by z-index
    ("kitty", "0.31.0", "paren", True, None),     # new kitty: blend=False
    ("Konsole", "23.08.1", "space", True, "placement"),
    ("WezTerm", "20230712-072601-f4abf8fd", "space", False, "cells"),
    ("iTerm2", "3.4.19", "space", False, "cells"),
    ("XTerm", "370", "paren", False, None),
]

CLEANUP_WRITE = re.compile(r"^(\n|\x1b\[\d+B|\x1b\[\?25h|\x1b\[0?m|\x1b\[m\x1b\[\?25h|)$")


def gen_draw_profile(ch):
    name, version, fmt, kg, it = ch.pick("dprofile", DRAW_PROFILES)
    return Profile(name=name, version=version, xtversion_fmt=fmt,
                   answers={"da1", "xtversion", "osc10", "osc11", "14t", "16t"},
                   kitty_graphics=kg, iterm2_images=it)


# --------------------------------------------------------------------------- padding model


def align_offsets(extra, align):
    """(before, after) for an alignment index 0/1/2 = start/centre/end."""
    before = {0: 0, 1: extra // 2, 2: extra}[align]
    return before, extra - before


class PadModel:
    """Exact margins of a padding for a render size (model, not the library's code)."""

    def __init__(self, kind, left=0, top=0, right=0, bottom=0, fill=" ",
                 width=0, height=0, h=1, v=1):
        self.kind = kind        # "exact" | "aligned"
        self.l, self.t, self.r, self.b = left, top, right, bottom
        self.fill = fill
        self.width, self.height, self.h, self.v = width, height, h, v

    def margins(self, size, term):
        if self.kind == "exact":
            return self.l, self.t, self.r, self.b
        w, h = self.width, self.height
        if w <= 0:
            w = max(term[0] + w, 1)
        if h <= 0:
            h = max(term[1] + h, 1)
        l, r = align_offsets(max(0, w - size[0]), self.h)
        t, b = align_offsets(max(0, h - size[1]), self.v)
        return l, t, r, b

    def describe(self):
        if self.kind == "exact":
            return "ExactPadding(%d,%d,%d,%d,fill=%r)" % (self.l, self.t, self.r, self.b, self.fill)
        return "AlignedPadding(%d,%d,h=%d,v=%d,fill=%r)" % (self.width, self.height, self.h,
                                                          self.v, self.fill)

    def build(self, padding_mod):
        if self.kind == "exact":
            return padding_mod.ExactPadding(self.l, self.t, self.r, self.b, self.fill)
        return padding_mod.AlignedPadding(self.width, self.height,
                                          padding_mod.HAlign(self.h), padding_mod.VAlign(self.v),
                                          self.fill)


def gen_padding(ch, size, term, fit=True):
    kind = ch.weighted("padkind", [(2, "none"), (3, "exact"), (3, "abs"), (2, "rel"),
                                   (2, "mixed")])
    fill = ch.weighted("fill", [(5, " "), (2, "."), (2, "")])
    cols, rows = term
    if kind == "none":
        return PadModel("exact", fill=fill)
    if kind == "exact":
        roomw = max(0, cols - size[0]) if fit else 6
        roomh = max(0, rows - size[1]) if fit else 4
        l = ch.int("pl", 0, min(4, roomw))
        r = ch.int("pr", 0, min(4, roomw - l))
        t = ch.int("pt", 0, min(3, roomh))
        b = ch.int("pb", 0, min(3, roomh - t))
        return PadModel("exact", l, t, r, b, fill)
    h, v = ch.int("ha", 0, 2), ch.int("va", 0, 2)
    if kind == "abs":
        w = ch.int("pw", 1, max(1, cols if fit else cols + 3))
        hh = ch.int("ph", 1, max(1, rows if fit else rows + 3))
        return PadModel("aligned", fill=fill, width=w, height=hh, h=h, v=v)
    w = -ch.int("prw", 0, max(0, cols - 1))
    hh = -ch.int("prh", 0, max(0, rows - 1))
    if kind == "mixed":
        # one dimension relative to the terminal, the other absolute
        if ch.bool("abs_width", 0.5):
            w = ch.int("pw", 1, max(1, cols if fit else cols + 3))
        else:
            hh = ch.int("ph", 1, max(1, rows if fit else rows + 3))
    return PadModel("aligned", fill=fill, width=w, height=hh, h=h, v=v)


# --------------------------------------------------------------------------- expectations


def expected_sim_cells(frame, size, char, duration):
    """Cell grid (rows of cells) of a SimRenderable frame, as VTerm would store it."""
    w, h = size
    fg = (frame % 256, duration % 256, ord(char) % 256)
    rows = []
    for y in range(h):
        text = "".join(chr(65 + (frame + x + 3 * y) % 26) for x in range(w))
        text = char + text[1:]
        rows.append([(c, fg, None, None) for c in text])
    return rows


def pre_marker(r, c, rows_total):
    return marker(r, c)


def check_outside(vt, rows0, s, region, ctxinfo, site):
    """Every cell outside ``region`` (r0, c0, r1, c1 half-open, may be clipped) equals its
    pre-call marker shifted by the scroll count ``s``; rows scrolled in are blank."""
    r0, c0, r1, c1 = region
    for r in range(vt.rows):
        src = r + s
        row = vt.grid[r]
        for c in range(vt.cols):
            if r0 <= r < r1 and c0 <= c < c1:
                continue
            cell = row[c]
            if src < rows0:
                exp = marker(src, c)
                ok = cell == exp
            else:
                ok = cell[0] == " " and cell[1] is None and cell[2] is None
                exp = (" ", None, None, None)
            if not ok:
                raise Violation("cell_outside_region_changed",
                                dict(ctxinfo, row=r, col=c, got=repr(cell), expected=repr(exp),
                                     region=region, scroll=s), site)


def check_region_cells(vt, top, left, exp_rows, ctxinfo, site, inv="frame_not_in_place"):
    for dy, exp_row in enumerate(exp_rows):
        r = top + dy
        if r < 0 or r >= vt.rows:
            continue
        for dx, exp in enumerate(exp_row):
            c = left + dx
            if c >= vt.cols:
                continue
            if exp is None:
                # untouched cell: pre-call content shifted by the scroll count
                src = r + ctxinfo.get("scroll", 0)
                exp = marker(src, c) if src < ctxinfo.get("rows0", vt.rows) else \
                    (" ", None, None, None)
            got = vt.grid[r][c]
            if got != exp:
                raise Violation(inv, dict(ctxinfo, row=r, col=c, got=repr(got),
                                          expected=repr(exp), top=top, left=left), site)


def terminal_restored(vt, tty, entry, visible_before, ctxinfo, site, after="return",
                      strings_only=False):
    """``strings_only``: after an injected interrupt only an unterminated control *string*
    (APC/OSC/DCS: the graphics commands) or a pending chunked transfer is a violation - a cut
    CSI/ESC swallows at most one sequence and is not among the things C07 lists."""
    check(vt.cursor_visible == visible_before, "cursor_visibility_not_restored",
          lambda: dict(ctxinfo, visible=vt.cursor_visible, after=after), site)
    check(vt.sgr_default(), "text_attributes_not_reset",
          lambda: dict(ctxinfo, fg=vt.fg, bg=vt.bg, attrs=sorted(map(str, vt.attrs)),
                       after=after), site)
    if strings_only:
        check(vt.state not in (3, 4, 5, 6) and vt.k_pending is None,
              "graphics_command_left_unterminated",
              lambda: dict(ctxinfo, state=vt.state, pending_kitty=vt.k_pending is not None,
                           after=after), site)
    else:
        check(vt.in_ground(), "terminal_left_inside_control_sequence",
              lambda: dict(ctxinfo, state=vt.state, pending_kitty=vt.k_pending is not None,
                           after=after), site)
    check(not vt.synced, "synchronized_update_left_open", lambda: dict(ctxinfo), site)
    check(tty.attrs == entry, "terminal_attributes_not_restored",
          lambda: dict(ctxinfo, lflag_entry=entry[3], lflag_now=tty.attrs[3], after=after), site)


# --------------------------------------------------------------------------- new API


class NewApiScenario:
    """A Renderable.draw() call on a SimRenderable plus what the documentation says
    must be on the screen afterwards."""

    def __init__(self, ch, ctx, w, hooks, small=False, tty_only=False):
        self.w = w
        self.hooks = hooks
        vt = w.vt
        cols, rows = vt.cols, vt.rows
        self.term = (cols, rows)
        kind = ch.weighted("subject", [(3, "still"), (5, "anim"), (2, "indef")])
        self.kind = kind
        fit = ch.bool("fit", 0.85)
        maxw = min(cols, 12 if small else 40)
        maxh = min(rows, 6 if small else 20)
        if fit:
            size = (ch.skewed("rw", 1, maxw), ch.skewed("rh", 1, maxh))
        else:
            size = (ch.int("rw", 1, cols + 3), ch.int("rh", 1, rows + 4))
        # the corner of the validation rules that independent knobs rarely reach together:
        # a single frame taller than the screen, size check on, scrolling allowed
        tall_scroll = ch.bool("tall_scroll_case", 0.05)
        if tall_scroll:
            fit = False
            size = (ch.int("rw", 1, min(cols, 8)), rows + ch.int("rh_over", 1, 4))
            ctx.probe("single_frame_taller_than_screen_scroll_allowed")
        self.size = size
        self.pad = gen_padding(ch, size, self.term, fit=fit)
        self.margins = self.pad.margins(size, self.term)
        l, t, r, b = self.margins
        self.W, self.H = l + size[0] + r, t + size[1] + b
        self.animate = ch.bool("animate", 0.9)
        self.n = 1 if kind == "still" else (ch.int("nframes", 2, 4 if small else 6))
        self.stream_len = ch.int("stream", 0, 3 if small else 5) if kind == "indef" else 0
        self.loops = ch.int("loops", 1, 2 if small else 3)
        self.cache = ch.pick("cache", (False, True, 1, 100))
        self.check_size = ch.bool("check_size", 0.8)
        self.allow_scroll = ch.bool("allow_scroll", 0.3)
        self.hide_cursor = ch.bool("hide_cursor", 0.75)
        self.echo_input = ch.bool("echo_input", 0.2)
        self.dynamic = ch.bool("dyn_duration", 0.3)
        self.duration = ch.int("duration", 1, 40)
        self.char = ch.pick("char", "#@%")
        self.cur_frame = 0
        if kind == "anim" and ch.bool("seeked", 0.3):
            self.cur_frame = ch.int("curframe", 0, self.n - 1)
        if tall_scroll:
            self.animate, self.check_size, self.allow_scroll = False, True, True
        self.animation = kind != "still" and self.animate
        # documented validation rule
        do_check = self.animation or self.check_size
        self.expect_error = None
        if do_check:
            if self.W > cols:
                self.expect_error = "RenderSizeOutofRangeError"
            elif (self.animation or not self.allow_scroll) and self.H > rows:
                self.expect_error = "RenderSizeOutofRangeError"
        self.fits = self.W <= cols and (self.H <= rows or
                                        (not self.animation and self.W <= cols))
        self.too_wide = self.W > cols

    def build(self):
        w = self.w
        ti = w.ti
        R = ti.renderable
        SimR = simrenderable.make(R, self.hooks)
        self.SimR = SimR
        fc = {"still": 1, "anim": self.n, "indef": R.FrameCount.INDEFINITE}[self.kind]
        fd = R.FrameDuration.DYNAMIC if self.dynamic else self.duration
        size = ti.geometry.Size(*self.size)
        r = SimR(fc, fd, size, stream_len=self.stream_len)
        if self.cur_frame:
            r.seek(self.cur_frame)
        self.renderable = r
        from term_image import padding as padding_mod
        self.padding = self.pad.build(padding_mod)
        self.args = +SimR.SimArgs(self.char) if self.char != "#" else None
        return r

    def describe(self):
        return ("SimRenderable(%s, frames=%s, size=%s).draw(pad=%s, animate=%s, loops=%d, "
                "cache=%r, check_size=%s, allow_scroll=%s, hide_cursor=%s, echo_input=%s, "
                "char=%r, tell=%d)"
                % (self.kind, self.n if self.kind != "indef" else "INDEFINITE/%d" % self.stream_len,
                   self.size, self.pad.describe(), self.animate, self.loops, self.cache,
                   self.check_size, self.allow_scroll, self.hide_cursor, self.echo_input,
                   self.char, self.cur_frame))

    def call(self):
        self.renderable.draw(self.args, self.padding, animate=self.animate, loops=self.loops,
                             cache=self.cache, check_size=self.check_size,
                             allow_scroll=self.allow_scroll, hide_cursor=self.hide_cursor,
                             echo_input=self.echo_input)

    def frame_sequence(self):
        """Frames displayed, in order (one per inter-frame sleep), per the docs."""
        if self.kind == "still" or not self.animate:
            return [self.cur_frame if self.kind == "anim" else 0]
        if self.kind == "indef":
            return list(range(self.stream_len))
        return list(range(self.n)) * self.loops

    def frame_duration(self, f):
        if self.kind == "still":
            return 0
        return 10 * (f + 1) if self.dynamic else self.duration

    def expected_region(self, f, pre_rows, s, top):
        """Expected cells of the padded region showing frame f (None = untouched)."""
        l, t, r, b = self.margins
        w, h = self.size
        fill = self.pad.fill
        fcell = (fill, None, None, None) if fill else None
        rows = []
        inner = expected_sim_cells(f, self.size, self.char, self.frame_duration(f))
        for y in range(self.H):
            if y < t or y >= t + h:
                rows.append([fcell] * self.W)
            else:
                rows.append([fcell] * l + inner[y - t] + [fcell] * r)
        return rows
