"""World: fresh import of term_image from the working tree + seam installation."""
from __future__ import annotations

import gc
import importlib
import multiprocessing
import multiprocessing.context
import os
import select as real_select
import shutil as real_shutil
import sys
import threading
import time as real_time
import weakref

from . import tty as simtty
from .core import HarnessError
from .kernel import Kernel, SimRLock
from .vterm import Profile, VTerm

_real = {
    "sleep": real_time.sleep, "time": real_time.time, "monotonic": real_time.monotonic,
    "perf_counter_ns": real_time.perf_counter_ns, "select": real_select.select,
    "get_terminal_size": real_shutil.get_terminal_size,
    "RLock": threading.RLock,
}
_PROC_START = multiprocessing.context.Process.start
_PROC_RUN = multiprocessing.context.Process.run
_pty = None
_warm = False


def src_dir():
    return os.environ.get("VERIF_SRC") or "/repo/src"


def ensure_path():
    src = src_dir()
    if not sys.path or sys.path[0] != src:
        if src in sys.path:
            sys.path.remove(src)
        sys.path.insert(0, src)


class _FakeStd:
    def __init__(self, fd):
        self._fd = fd

    def fileno(self):
        return self._fd


def purge():
    for name in [n for n in sys.modules if n == "term_image" or n.startswith("term_image.")]:
        del sys.modules[name]


class Boot:
    """Result of a fresh import: modules + captured Process wrappers."""


def fresh_import(kernel=None, with_widget=False, sim_locks=True):
    """Import term_image from the working tree the way a process on a terminal would:
    ``sys.__stdout__`` is a pty slave so ``_tty_fd`` discovery and the Process patching
    at the bottom of utils.py really run.  threading.RLock is patched during the
    import so the locks captured in ``cached`` closures are simulated ones."""
    global _pty, _warm
    ensure_path()
    if not _warm:
        # Warm-up: import every third-party / stdlib dependency once *unpatched*, so that
        # no foreign module captures a simulated lock during the patched import below.
        _warm = True
        sys.dont_write_bytecode = False
        import warnings
        warnings.simplefilter("ignore")
        from PIL import Image
        Image.preinit()
        import requests  # noqa
        import urwid  # noqa
        import term_image  # noqa
        import term_image.image  # noqa
        import term_image.render  # noqa
        import term_image.renderable  # noqa
        import term_image.widget  # noqa
        multiprocessing.context.Process.start = _PROC_START
        multiprocessing.context.Process.run = _PROC_RUN
        u = sys.modules["term_image.utils"]
        if u._tty_fd != -1:
            try:
                os.close(u._tty_fd)
            except OSError:
                pass
    purge()
    if _pty is None:
        _pty = os.openpty()
    kref = weakref.ref(kernel) if kernel is not None else (lambda: None)
    counter = [0]

    def rlock_factory():
        counter[0] += 1
        return SimRLock(kref, "rlock%d" % counter[0])

    old_stdout = sys.__stdout__
    sys.__stdout__ = _FakeStd(_pty[1])
    if sim_locks:
        threading.RLock = rlock_factory
    try:
        import term_image  # noqa
        import term_image.utils as utils
        import term_image.image  # noqa
        import term_image.renderable  # noqa
        import term_image.render  # noqa
        if with_widget:
            import term_image.widget  # noqa
    finally:
        threading.RLock = _real["RLock"]
        sys.__stdout__ = old_stdout
    b = Boot()
    b.term_image = sys.modules["term_image"]
    b.utils = utils
    b.start_wrapper = multiprocessing.context.Process.start
    b.run_wrapper = multiprocessing.context.Process.run
    multiprocessing.context.Process.start = _PROC_START
    multiprocessing.context.Process.run = _PROC_RUN
    b.real_tty_fd = utils._tty_fd
    if utils._tty_fd != -1:
        try:
            os.close(utils._tty_fd)
        except OSError:
            pass
    b.booted_with_tty = utils._tty_fd != -1
    utils._tty_fd = simtty.FD_TTY
    if not os.path.abspath(b.term_image.__file__).startswith(os.path.abspath(src_dir())):
        raise HarnessError("term_image imported from %s, not from %s"
                           % (b.term_image.__file__, src_dir()))
    return b


def install_seams(kernel, tty, stdout=None, http=None):
    """Identity scan: every global of every term_image module that *is* one of the real
    nondeterminism sources is replaced by its simulated counterpart."""
    fos = simtty.FakeOS(tty)
    ftermios = simtty.FakeTermios(tty)
    ffcntl = simtty.FakeFcntl(tty)
    fselect = simtty.make_select(tty)
    fshutil = simtty.make_shutil_size(tty)
    import fcntl as real_fcntl
    import termios as real_termios
    table = [
        (_real["sleep"], kernel.sleep),
        (_real["time"], kernel.time),
        (_real["monotonic"], kernel.monotonic),
        (_real["perf_counter_ns"], kernel.perf_counter_ns),
        (_real["select"], fselect),
        (_real["get_terminal_size"], fshutil),
        (os, fos),
        (real_termios, ftermios),
        (real_fcntl, ffcntl),
    ]

    class FakeTime:
        def __getattr__(self, name):
            return getattr(real_time, name)
        sleep = staticmethod(kernel.sleep)
        time = staticmethod(kernel.time)
        monotonic = staticmethod(kernel.monotonic)
        perf_counter_ns = staticmethod(kernel.perf_counter_ns)

    table.append((real_time, FakeTime()))
    if http is not None:
        try:
            import requests
            table.append((requests, http))
        except ImportError:
            pass
    replaced = 0
    for name, mod in list(sys.modules.items()):
        if not (name == "term_image" or name.startswith("term_image.")) or mod is None:
            continue
        d = mod.__dict__
        for gname, val in list(d.items()):
            for real, fake in table:
                if val is real:
                    d[gname] = fake
                    replaced += 1
                    break
    if stdout is not None:
        for modname in ("term_image.image.kitty", "term_image.image.iterm2"):
            m = sys.modules.get(modname)
            if m is not None and hasattr(m, "_stdout_write"):
                m._stdout_write = stdout.write
    return replaced


class World:
    """kernel + SimTTY + VTerm (+ SimStdout), with term_image freshly imported."""

    def __init__(self, ctx, ch, fault=None, rows=24, cols=80, profile=None,
                 cell_px=(8, 16), with_widget=False, stdout_tty=True, buffered=False,
                 retain=False, prefill=True, http=None):
        self.ctx = ctx
        self.ch = ch
        self.k = Kernel(ctx, ch, fault)
        self.vt = VTerm(rows, cols, profile or Profile(), cell_px, prefill=prefill)
        self.tty = simtty.SimTTY(self.k, self.vt)
        self.out = simtty.SimStdout(self.k, self.tty if stdout_tty else None,
                                    isatty=stdout_tty, buffered=buffered, retain=retain)
        self.boot = fresh_import(self.k, with_widget=with_widget)
        self.ti = self.boot.term_image
        self.utils = self.boot.utils
        install_seams(self.k, self.tty, self.out, http)
        self._old_stdout = None
        self._gc = None

    def __enter__(self):
        self._old_stdout = sys.stdout
        sys.stdout = self.out
        self._gc = gc.isenabled()
        gc.disable()
        _arm_tripwires()
        return self

    def __exit__(self, *exc):
        _disarm_tripwires()
        sys.stdout = self._old_stdout
        if self._gc:
            gc.enable()
        self.ctx.sim_ns += self.k.now
        common = sys.modules.get("term_image.image.common")
        tmpd = getattr(common, "_TEMP_DIR", None)
        if tmpd and os.path.isdir(tmpd):
            import shutil
            shutil.rmtree(tmpd, ignore_errors=True)
        self.k.abort_tasks() if self.k.tasks else None
        return False


# --------------------------------------------------------------------------- tripwires


class HarnessEscape(HarnessError):
    pass


def _trip(name):
    def f(*a, **kw):
        raise HarnessEscape("real %s called while a simulated world is active" % name)
    return f


_armed = False


def _arm_tripwires():
    global _armed
    if _armed:
        return
    _armed = True
    real_time.sleep = _trip("time.sleep")


def _disarm_tripwires():
    global _armed
    if not _armed:
        return
    _armed = False
    real_time.sleep = _real["sleep"]
