"""World: fresh import of term_image from the working tree + seam installation."""
from __future__ import annotations

import gc
import importlib
import multiprocessing
import multiprocessing.context
import os
import select as real_select
import shutil as real_shutil
import sys
import threading
import time as real_time

from . import tty as simtty
from .core import HarnessError
from .kernel import Kernel, SimRLock
from .vterm import Profile, VTerm

_real = {
    "sleep": real_time.sleep, "time": real_time.time, "monotonic": real_time.monotonic,
    "perf_counter_ns": real_time.perf_counter_ns, "select": real_select.select,
    "get_terminal_size": real_shutil.get_terminal_size,
    "RLock": threading.RLock,
}
_PROC_START = multiprocessing.context.Process.start
_PROC_RUN = multiprocessing.context.Process.run
_pty = None
_warm = False
CURRENT_KERNEL = [None]
_IMPORT_LOCKS = []   # simulated locks created by the current import (memo locks in closures)


def current_kernel():
    return CURRENT_KERNEL[0]


def src_dir():
    return os.environ.get("VERIF_SRC") or "/repo/src"


def ensure_path():
    src = src_dir()
    if not sys.path or sys.path[0] != src:
        if src in sys.path:
            sys.path.remove(src)
        sys.path.insert(0, src)


class _FakeStd:
    def __init__(self, fd):
        self._fd = fd

    def fileno(self):
        return self._fd


def purge():
    for name in [n for n in sys.modules if n == "term_image" or n.startswith("term_image.")]:
        del sys.modules[name]
    # urwid keeps every class that declares signals in a process-global registry: drop the
    # entries of earlier generations of the package (and of harness subclasses of them),
    # otherwise each fresh import stays alive for the life of the worker
    sig = sys.modules.get("urwid.signals")
    reg = getattr(getattr(sig, "_signals", None), "_supported", None)
    if isinstance(reg, dict):
        for cls in list(reg):
            try:
                mro_mods = {getattr(c, "__module__", "") for c in cls.__mro__}
            except Exception:
                continue
            if any(m == "term_image" or m.startswith("term_image.") for m in mro_mods):
                del reg[cls]


class Boot:
    """Result of a fresh import: modules + captured Process wrappers."""


def fresh_import(kernel=None, with_widget=False, sim_locks=True):
    """Import term_image from the working tree the way a process on a terminal would:
    ``sys.__stdout__`` is a pty slave so ``_tty_fd`` discovery and the Process patching
    at the bottom of utils.py really run.  threading.RLock is patched during the
    import so the locks captured in ``cached`` closures are simulated ones."""
    global _pty, _warm
    ensure_path()
    if not _warm:
        # Warm-up: import every third-party / stdlib dependency once *unpatched*, so that
        # no foreign module captures a simulated lock during the patched import below.
        _warm = True
        sys.dont_write_bytecode = False
        import warnings
        warnings.simplefilter("ignore")
        from PIL import Image
        Image.preinit()
        import requests  # noqa
        import urwid  # noqa
        import term_image  # noqa
        import term_image.image  # noqa
        import term_image.render  # noqa
        import term_image.renderable  # noqa
        import term_image.widget  # noqa
        multiprocessing.context.Process.start = _PROC_START
        multiprocessing.context.Process.run = _PROC_RUN
        u = sys.modules["term_image.utils"]
        if u._tty_fd != -1:
            try:
                os.close(u._tty_fd)
            except OSError:
                pass
        # everything imported so far is permanent: keep generated collect operations cheap
        gc.collect()
        gc.freeze()
    purge()
    if _pty is None:
        _pty = os.openpty()
    counter = [0]

    def rlock_factory():
        counter[0] += 1
        lk = SimRLock(current_kernel, "rlock%d" % counter[0])
        _IMPORT_LOCKS.append(lk)
        return lk

    del _IMPORT_LOCKS[:]

    old_stdout = sys.__stdout__
    sys.__stdout__ = _FakeStd(_pty[1])
    if sim_locks:
        threading.RLock = rlock_factory
    try:
        import term_image  # noqa
        import term_image.utils as utils
        import term_image.image  # noqa
        import term_image.renderable  # noqa
        import term_image.render  # noqa
        if with_widget:
            import term_image.widget  # noqa
    finally:
        threading.RLock = _real["RLock"]
        sys.__stdout__ = old_stdout
    # image/common.py registers an atexit handler at every import; it would keep every
    # generation of the package alive for the life of the worker (the scratch TMPDIR is
    # removed by the runner, and World.__exit__ removes the library's temp dir)
    common = sys.modules.get("term_image.image.common")
    if common is not None and hasattr(common, "_cleanup_temp_dir"):
        import atexit
        atexit.unregister(common._cleanup_temp_dir)
    b = Boot()
    b.term_image = sys.modules["term_image"]
    b.utils = utils
    b.start_wrapper = multiprocessing.context.Process.start
    b.run_wrapper = multiprocessing.context.Process.run
    multiprocessing.context.Process.start = _PROC_START
    multiprocessing.context.Process.run = _PROC_RUN
    b.real_tty_fd = utils._tty_fd
    if utils._tty_fd != -1:
        try:
            os.close(utils._tty_fd)
        except OSError:
            pass
    b.booted_with_tty = utils._tty_fd != -1
    utils._tty_fd = simtty.FD_TTY
    if not os.path.abspath(b.term_image.__file__).startswith(os.path.abspath(src_dir())):
        raise HarnessError("term_image imported from %s, not from %s"
                           % (b.term_image.__file__, src_dir()))
    return b


_SLOTS = {"boot": None, "slots": None}


def _scan_slots(boot):
    """Identity scan (once per import): every global of every term_image module that
    *is* one of the real nondeterminism sources is recorded as a seam slot."""
    import fcntl as real_fcntl
    import termios as real_termios
    kinds = [
        (_real["sleep"], "sleep"), (_real["time"], "time"), (_real["monotonic"], "monotonic"),
        (_real["perf_counter_ns"], "perf_counter_ns"), (_real["select"], "select"),
        (_real["get_terminal_size"], "shutil_size"), (os, "os"), (real_termios, "termios"),
        (real_fcntl, "fcntl"), (real_time, "timemod"),
    ]
    try:
        import requests
        kinds.append((requests, "requests"))
    except ImportError:
        pass
    slots = []
    for name, mod in sorted(sys.modules.items()):
        if not (name == "term_image" or name.startswith("term_image.")) or mod is None:
            continue
        d = mod.__dict__
        for gname, val in list(d.items()):
            for real, kind in kinds:
                if val is real:
                    slots.append((d, gname, kind, real))
                    break
    return slots


def install_seams(boot, kernel, tty, stdout=None, http=None):
    if _SLOTS["boot"] is not boot:
        _SLOTS["boot"] = boot
        _SLOTS["slots"] = _scan_slots(boot)

    class FakeTime:
        def __getattr__(self, name):
            return getattr(real_time, name)
        sleep = staticmethod(kernel.sleep)
        time = staticmethod(kernel.time)
        monotonic = staticmethod(kernel.monotonic)
        perf_counter_ns = staticmethod(kernel.perf_counter_ns)

    fakes = {
        "sleep": kernel.sleep, "time": kernel.time, "monotonic": kernel.monotonic,
        "perf_counter_ns": kernel.perf_counter_ns, "select": simtty.make_select(tty),
        "shutil_size": simtty.make_shutil_size(tty), "os": simtty.FakeOS(tty),
        "termios": simtty.FakeTermios(tty), "fcntl": simtty.FakeFcntl(tty),
        "timemod": FakeTime(),
    }
    if http is not None:
        fakes["requests"] = http
    for d, gname, kind, real in _SLOTS["slots"]:
        d[gname] = fakes.get(kind, real)
    if stdout is not None:
        for modname in ("term_image.image.kitty", "term_image.image.iterm2"):
            m = sys.modules.get(modname)
            if m is not None and hasattr(m, "_stdout_write"):
                m._stdout_write = stdout.write
    return len(_SLOTS["slots"])


_REUSE = {"boot": None, "widget": False}


def reset_module_state(boot):
    """For worlds that reuse an import: put term_image's process-global state back to
    what a fresh import leaves (used only by properties that do not depend on it)."""
    u = boot.utils
    ti = boot.term_image
    # locks captured in closures (`cached`, `terminal_size_cached`) survive in a reused import:
    # a world that was torn down while a task held one must not leak that into the next
    for lk in _IMPORT_LOCKS:
        lk.owner = None
        lk.count = 0
        lk.waiters = 0
    u._query_timeout = 0.1
    u._queries_enabled = True
    u._swap_win_size = False
    u._tty_fd = simtty.FD_TTY
    u._cell_size_cache = [0] * 4
    u._tty_lock = SimRLock(current_kernel, "tty_lock")
    u._cell_size_lock = SimRLock(current_kernel, "cell_lock")
    for fn in (u.get_fg_bg_colors, u.get_terminal_name_version):
        fn._invalidate_cache()
    ti._cell_ratio = 0.5
    ti.AutoCellRatio.is_supported = None
    # the RenderArgs intern table keeps every render class ever used; harness classes of
    # earlier worlds would pile up in a reused import
    rt = sys.modules.get("term_image.renderable._types")
    if rt is not None:
        table = rt.RenderArgs._interned
        for cls in [c for c in table if not str(getattr(c, "__module__", "")).startswith("term_image")]:
            del table[cls]
    img = sys.modules.get("term_image.image")
    if img is not None:
        for cls in (img.KittyImage, img.ITerm2Image, img.BlockImage):
            cls._supported = None
            cls._forced_support = False
            for name, val in (("_TERM", ""), ("_TERM_VERSION", ""), ("_KITTY_VERSION", ())):
                if hasattr(cls, name):
                    setattr(cls, name, val)
        inv = getattr(img.TextImage._is_on_kitty, "_invalidate_cache", None)
        if inv:
            inv()


class World:
    """kernel + SimTTY + VTerm (+ SimStdout), with term_image freshly imported."""

    def __init__(self, ctx, ch, fault=None, rows=24, cols=80, profile=None,
                 cell_px=(8, 16), with_widget=False, stdout_tty=True, buffered=False,
                 retain=False, prefill=True, http=None, reuse=False):
        self.ctx = ctx
        self.ch = ch
        self.k = Kernel(ctx, ch, fault)
        self.vt = VTerm(rows, cols, profile or Profile(), cell_px, prefill=prefill)
        self.tty = simtty.SimTTY(self.k, self.vt)
        self.out = simtty.SimStdout(self.k, self.tty, isatty=stdout_tty, buffered=buffered,
                                    retain=retain)
        CURRENT_KERNEL[0] = self.k
        if reuse and _REUSE["boot"] is not None and (_REUSE["widget"] or not with_widget):
            self.boot = _REUSE["boot"]
            reset_module_state(self.boot)
        else:
            self.boot = fresh_import(self.k, with_widget=with_widget)
            _REUSE["boot"] = self.boot if reuse else None
            _REUSE["widget"] = with_widget
            if reuse:
                reset_module_state(self.boot)
        self.ti = self.boot.term_image
        self.utils = self.boot.utils
        install_seams(self.boot, self.k, self.tty, self.out, http)
        self._old_stdout = None
        self._gc = None

    def __enter__(self):
        self._old_stdout = sys.stdout
        sys.stdout = self.out
        self._gc = gc.isenabled()
        gc.disable()
        _arm_tripwires()
        return self

    def __exit__(self, *exc):
        _disarm_tripwires()
        sys.stdout = self._old_stdout
        if self._gc:
            gc.enable()
        self.ctx.sim_ns += self.k.now
        common = sys.modules.get("term_image.image.common")
        tmpd = getattr(common, "_TEMP_DIR", None)
        if tmpd and os.path.isdir(tmpd) and _REUSE["boot"] is not self.boot:
            import shutil
            shutil.rmtree(tmpd, ignore_errors=True)
        self.k.abort_tasks() if self.k.tasks else None
        CURRENT_KERNEL[0] = None
        return False


# --------------------------------------------------------------------------- tripwires


class HarnessEscape(HarnessError):
    pass


def _trip(name):
    def f(*a, **kw):
        raise HarnessEscape("real %s called while a simulated world is active" % name)
    return f


_armed = False


def _arm_tripwires():
    global _armed
    if _armed:
        return
    _armed = True
    real_time.sleep = _trip("time.sleep")


def _disarm_tripwires():
    global _armed
    if not _armed:
        return
    _armed = False
    real_time.sleep = _real["sleep"]
