"""Batch runner: workers, shrinking, replay files, known findings, evidence.

Exit codes of a check: 0 = held on everything explored (known findings printed),
1 = at least one unlisted violation (``VIOLATION property=<id> replay=<path>``),
2 = harness error (timeout, escape from the simulation, non-determinism) - never 0.
"""
from __future__ import annotations

import argparse
import faulthandler
import importlib
import json
import os
import shutil
import subprocess
import sys
import tempfile
import time
import traceback

VERIF = os.path.dirname(os.path.dirname(os.path.abspath(__file__)))
CHECK = os.path.join(VERIF, "check")
DEFAULT_SEED = 20260926
PROPS = ["C04", "C06", "C07", "C08", "C09", "C10", "C11", "C12", "C13", "C14",
         "C15", "C16", "C18", "C20"]


def load_prop(pid):
    return importlib.import_module("props." + pid.lower())


def src_dir():
    return os.environ.get("VERIF_SRC") or "/repo/src"


# --------------------------------------------------------------------------- worker


def run_world(prop, values_or_seed, tier, cfg, fault=None, replay=False):
    """Execute one world.  Returns (ctx, choices, violation|None)."""
    from .choices import Choices
    from .core import Ctx, Violation

    ch = Choices(replay=values_or_seed) if replay else Choices(seed=values_or_seed)
    ctx = Ctx(cfg, tier)
    ctx.log("fault", fault)
    viol = None
    try:
        prop.run(ch, ctx, fault)
    except Violation as v:
        # keep nothing of the failed world alive (frames hold open files, images, ...)
        viol = Violation(v.invariant, v.detail, v.site)
        ctx.log("violation", v.invariant, v.site)
        del v
    except Exception as e:
        # An exception nobody expected.  Raised by harness code it is a harness error; raised
        # from inside the library (innermost frame in the source tree under test) while the
        # property module did not anticipate it, the library did something undocumented in an
        # operation the property says succeeds (or fails differently): that is a violation
        # with a replay, not a crash of the check.
        where = _library_frame(e)
        if where is None:
            raise
        viol = Violation("library_raised_unexpected_exception",
                         {"exception": repr(e)[:300], "raised_in": where, "fault": fault},
                         "%s@%s" % (type(e).__name__, where.split(":")[-1]))
        ctx.log("violation", viol.invariant, viol.site)
        del e
    return ctx, ch, viol


def _library_frame(exc):
    tb = exc.__traceback__
    last = None
    while tb is not None:
        last = tb
        tb = tb.tb_next
    if last is None:
        return None
    code = last.tb_frame.f_code
    root = os.path.realpath(src_dir())
    fn = os.path.realpath(code.co_filename)
    if not fn.startswith(root + os.sep):
        return None
    return "%s:%s" % (os.path.relpath(fn, root), code.co_name)


def worker_main(a):
    sys.setrecursionlimit(10000)
    from .choices import derive_seed, shrink
    from .core import jsonable

    prop = load_prop(a.prop)
    cfg = dict(prop.TIERS[a.tier])
    cfg.update(json.loads(a.cfg) if a.cfg else {})
    runs = a.runs if a.runs else cfg["runs"]
    t0 = time.time()
    deadline = t0 + a.deadline
    out = {
        "wid": a.wid, "scenarios": 0, "evaluations": 0, "keys": [], "samples": [],
        "probes": {}, "faults_fired": {}, "sim_ns": 0, "violations": [],
        "harness_errors": [], "digests": {}, "recheck": {"n": 0, "mismatches": 0},
        "stopped_early": False, "counts": {},
    }
    keys = set()
    seen_sigs = {}
    known = load_known()
    has_faults = hasattr(prop, "faults")

    def sig_of(viol):
        """(invariant, site, key of the open known finding it matches or None): a violation
        that a known-findings entry does not cover must never be merged with one it covers"""
        kf = match_known(a.prop, {"invariant": viol.invariant, "site": viol.site,
                                  "detail": jsonable(viol.detail)}, known)
        return (viol.invariant, viol.site, kf["key"] if kf else None)

    indices = list(range(a.wid, runs, a.nworkers))
    if a.recheck:
        indices = indices[: a.recheck]

    def merge(ctx):
        out["evaluations"] += 1
        out["sim_ns"] += ctx.sim_ns
        for k, v in ctx.probes.items():
            out["probes"][k] = out["probes"].get(k, 0) + v
        for k, v in ctx.faults_fired.items():
            out["faults_fired"][k] = out["faults_fired"].get(k, 0) + v
        if ctx.nontrivial:
            keys.add(ctx.abstract_key())

    def on_violation(i, seed_i, ch, fault, viol, ctx):
        sig = sig_of(viol)
        rec = seen_sigs.get(sig)
        if rec is not None:
            rec["count"] += 1
            return
        rec = {
            "run_index": i, "seed": seed_i, "fault": fault,
            "invariant": viol.invariant, "site": viol.site,
            "detail": jsonable(viol.detail), "choices_original": list(ch.values),
            "count": 1,
        }
        seen_sigs[sig] = rec
        out["violations"].append(rec)
        # shrink the choice list while the same violation class persists
        best_ctx = [ctx, ch, viol]

        def still_fails(cand):
            faulthandler.dump_traceback_later(a.run_timeout, exit=True)
            try:
                c2, ch2, v2 = run_world(prop, cand, a.tier, cfg, fault, replay=True)
            except Exception:
                return False
            if v2 is not None and sig_of(v2) == sig:
                best_ctx[:] = [c2, ch2, v2]
                return True
            return False

        budget = 0 if a.no_shrink else (a.shrink_budget if time.time() < deadline
                                        else min(40, a.shrink_budget))
        if sig[2] is not None:
            budget = min(budget, 20)    # a listed finding: no replay file is written for it
        best, used = shrink(list(ch.values), still_fails, budget=budget)
        # canonical final run of the minimised list
        faulthandler.dump_traceback_later(a.run_timeout, exit=True)
        c2, ch2, v2 = run_world(prop, best, a.tier, cfg, fault, replay=True)
        if v2 is None or sig_of(v2) != sig:
            out["harness_errors"].append(
                "minimised run does not reproduce %r (non-determinism?)" % (sig,))
            c2, ch2, v2 = best_ctx
        rec.update({
            "choices": list(ch2.values), "shrink_runs": used,
            "detail": jsonable(v2.detail), "trace": c2.trace[-400:],
            "digest": c2.digest(), "labels": ch2.labels[:2000],
        })

    for n, i in enumerate(indices):
        if time.time() > deadline and not a.recheck:
            out["stopped_early"] = True
            break
        seed_i = derive_seed(a.seed, a.prop, i)
        faulthandler.dump_traceback_later(a.run_timeout, exit=True)
        try:
            ctx, ch, viol = run_world(prop, seed_i, a.tier, cfg)
        except Exception:
            out["harness_errors"].append(
                "run %d seed %d: %s" % (i, seed_i, traceback.format_exc()[-3000:]))
            if len(out["harness_errors"]) > 5:
                break
            continue
        out["scenarios"] += 1
        merge(ctx)
        d = ctx.digest()
        if n < a.keep_digests:
            out["digests"][str(i)] = d
        if len(out["samples"]) < 2 and ctx.nontrivial and not a.recheck:
            out["samples"].append({"run_index": i, "seed": seed_i, "trace": ctx.trace[:60]})
        if viol is not None:
            on_violation(i, seed_i, ch, None, viol, ctx)
        # in-process determinism recheck on a sample
        if n % a.recheck_every == 0 and not a.recheck:
            try:
                c2, _, _ = run_world(prop, list(ch.values), a.tier, cfg, replay=True)
                out["recheck"]["n"] += 1
                if c2.digest() != d:
                    out["recheck"]["mismatches"] += 1
                    out["harness_errors"].append(
                        "non-deterministic run %d seed %d" % (i, seed_i))
            except Exception:
                out["harness_errors"].append(
                    "recheck run %d: %s" % (i, traceback.format_exc()[-2000:]))
        if has_faults and viol is None and not a.recheck:
            try:
                flist = prop.faults(ctx, ch)
            except Exception:
                out["harness_errors"].append(
                    "faults() run %d: %s" % (i, traceback.format_exc()[-2000:]))
                flist = []
            cap = cfg.get("max_faults_per_scenario", 1500)
            if len(flist) > cap:
                # an unusually expensive scenario: keep the positions evenly spread (and say so
                # in the evidence) instead of letting one scenario eat the whole budget
                step = len(flist) / float(cap)
                flist = [flist[int(j * step)] for j in range(cap)]
                out["subsampled_scenarios"] = out.get("subsampled_scenarios", 0) + 1
            for f in flist:
                if time.time() > deadline + a.deadline * 0.5:
                    out["stopped_early"] = True
                    break
                faulthandler.dump_traceback_later(a.run_timeout, exit=True)
                try:
                    cf, chf, vf = run_world(prop, list(ch.values), a.tier, cfg, f, replay=True)
                except Exception:
                    out["harness_errors"].append(
                        "run %d seed %d fault %r: %s"
                        % (i, seed_i, f, traceback.format_exc()[-3000:]))
                    if len(out["harness_errors"]) > 5:
                        break
                    continue
                merge(cf)
                if vf is not None:
                    on_violation(i, seed_i, chf, f, vf, cf)
    faulthandler.cancel_dump_traceback_later()
    out["keys"] = sorted(keys)
    out["wall_s"] = time.time() - t0
    with open(a.out, "w") as fp:
        json.dump(out, fp)
    return 0


# --------------------------------------------------------------------------- replay


def replay_main(a):
    from .core import jsonable

    with open(a.replay) as fp:
        rep = json.load(fp)
    pid = rep["property"]
    prop = load_prop(pid)
    tier = rep.get("tier", "quick")
    cfg = dict(prop.TIERS[tier])
    cfg.update(rep.get("cfg_override") or {})
    faulthandler.dump_traceback_later(600, exit=True)
    ctx, ch, viol = run_world(prop, rep["choices"], tier, cfg, rep.get("fault"), replay=True)
    faulthandler.cancel_dump_traceback_later()
    if not a.quiet:
        for line in ctx.trace[-200:]:
            print("  |", line)
    if viol is None:
        print("replay: no violation reproduced")
        return 0
    same = (viol.invariant == rep["violation"]["invariant"]
            and viol.site == rep["violation"]["site"])
    dig = ctx.digest()
    print("replay: violation invariant=%s site=%s digest=%s same_signature=%s same_digest=%s"
          % (viol.invariant, viol.site, dig[:12], same, dig == rep.get("digest")))
    if not a.quiet:
        print(json.dumps(jsonable(viol.detail), indent=1)[:6000])
    print("VIOLATION property=%s replay=%s" % (pid, os.path.abspath(a.replay)))
    return 1 if same and dig == rep.get("digest") else 3


# --------------------------------------------------------------------------- main


def load_known():
    path = os.path.join(VERIF, "known_findings.json")
    if not os.path.exists(path):
        return []
    with open(path) as fp:
        return json.load(fp).get("findings", [])


def match_known(pid, rec, known):
    for k in known:
        if k.get("property") != pid or k.get("status") != "open":
            continue
        m = k.get("match", {})
        if m.get("invariant") not in (None, rec["invariant"]):
            continue
        if "site" in m and m["site"] != rec["site"]:
            continue
        if "site_prefix" in m and not rec["site"].startswith(m["site_prefix"]):
            continue
        det = rec.get("detail") or {}
        ok = True
        for key, val in (m.get("where") or {}).items():
            if not isinstance(det, dict) or det.get(key) != val:
                ok = False
                break
        # where_sub: {detail key: {sub key: value}} - the detail entry must be a dict that
        # contains these items (used for the fault plan, whose position varies)
        for key, sub in (m.get("where_sub") or {}).items():
            cur = det.get(key) if isinstance(det, dict) else None
            if not isinstance(cur, dict) or any(cur.get(a) != b for a, b in sub.items()):
                ok = False
                break
        if ok:
            return k
    return None


def check_main(a):
    pid = a.prop
    prop = load_prop(pid)
    tier = a.tier
    seed = a.seed
    t0 = time.time()
    cfg = dict(prop.TIERS[tier])
    runs = a.runs or int(os.environ.get("VERIF_RUNS", 0)) or cfg["runs"]
    wall_cap = a.wall_cap or cfg.get("wall_cap", 100 if tier == "quick" else 1500)
    nworkers = max(1, min(a.workers, runs))
    scratch = tempfile.mkdtemp(prefix="verif-%s-" % pid.lower())
    env = dict(os.environ)
    env.update({
        "PYTHONHASHSEED": "0",
        "PYTHONPYCACHEPREFIX": os.path.join(scratch, "pycache"),
        "VERIF_SRC": src_dir(),
        "PYTHONWARNINGS": "ignore",
    })
    env.pop("PYTHONDONTWRITEBYTECODE", None)
    procs = []
    harness = []
    try:
        def spawn(wid, extra, envx=None):
            outp = os.path.join(scratch, "out-%s.json" % (wid if not extra else "rc"))
            tmpd = os.path.join(scratch, "tmp-%s" % (wid if not extra else "rc"))
            os.makedirs(tmpd, exist_ok=True)
            e = dict(env)
            e["TMPDIR"] = tmpd
            if envx:
                e.update(envx)
            cmd = ["/bin/sh", CHECK, "--worker", pid, "--tier", tier,
                   "--seed", str(seed), "--wid", str(wid), "--nworkers", str(nworkers),
                   "--runs", str(runs), "--out", outp, "--deadline", str(wall_cap),
                   "--shrink-budget", str(a.shrink_budget)] + extra
            if a.no_shrink:
                cmd.append("--no-shrink")
            logp = open(outp + ".log", "w")
            return subprocess.Popen(cmd, env=e, stdout=logp, stderr=subprocess.STDOUT,
                                    cwd=VERIF), outp, logp

        for w in range(nworkers):
            procs.append(spawn(w, []))
        # cross-interpreter determinism: same indices as worker 0, other hash seed
        n_rc = cfg.get("recheck_fresh", 12)
        rc = spawn(0, ["--recheck", str(n_rc)], {"PYTHONHASHSEED": "12345"})
        hard = wall_cap * 3 + 300

        def collect(p, outp, logp):
            try:
                p.wait(timeout=max(5, hard - (time.time() - t0)))
            except subprocess.TimeoutExpired:
                p.kill()
                p.wait()
                harness.append("worker timed out (killed): %s" % outp)
            logp.close()
            if p.returncode != 0:
                try:
                    tail = open(outp + ".log").read()[-3000:]
                except OSError:
                    tail = ""
                harness.append("worker exit %s: %s\n%s" % (p.returncode, outp, tail))
                return None
            with open(outp) as fp:
                return json.load(fp)

        results = [r for r in (collect(*t) for t in procs) if r is not None]
        rc_res = collect(*rc)
        # ------------------------------------------------------------ merge
        ev = sum(r["evaluations"] for r in results)
        scen = sum(r["scenarios"] for r in results)
        keys = set()
        probes, fired = {}, {}
        sim_ns = 0
        samples = []
        viols = []
        recheck = {"n": 0, "mismatches": 0, "fresh_interpreter_n": 0,
                   "fresh_interpreter_mismatches": 0}
        stopped = False
        for r in results:
            keys.update(r["keys"])
            for k, v in r["probes"].items():
                probes[k] = probes.get(k, 0) + v
            for k, v in r["faults_fired"].items():
                fired[k] = fired.get(k, 0) + v
            sim_ns += r["sim_ns"]
            samples.extend(r["samples"])
            viols.extend(r["violations"])
            harness.extend(r["harness_errors"])
            recheck["n"] += r["recheck"]["n"]
            recheck["mismatches"] += r["recheck"]["mismatches"]
            stopped = stopped or r["stopped_early"]
        if rc_res is not None:
            w0 = next((r for r in results if r["wid"] == 0), None)
            if w0:
                for k, d in rc_res["digests"].items():
                    if k in w0["digests"]:
                        recheck["fresh_interpreter_n"] += 1
                        if w0["digests"][k] != d:
                            recheck["fresh_interpreter_mismatches"] += 1
                            harness.append("digest mismatch across interpreters / "
                                           "PYTHONHASHSEED for run %s" % k)
            harness.extend(rc_res["harness_errors"])
        # ------------------------------------------------------------ violations
        known = load_known()
        by_sig = {}
        for v in viols:
            kf = match_known(pid, v, known)
            sig = (v["invariant"], v["site"], kf["key"] if kf else None)
            cur = by_sig.get(sig)
            if cur is None or len(v.get("choices", [])) < len(cur.get("choices", [])):
                if cur is not None:
                    v["count"] += cur["count"]
                by_sig[sig] = v
            else:
                cur["count"] += v["count"]
        lines = []
        n_unlisted = 0
        os.makedirs(os.path.join(VERIF, "replays"), exist_ok=True)
        known_hit = {}
        for sig, v in sorted(by_sig.items(), key=lambda kv: tuple(map(str, kv[0]))):
            k = match_known(pid, v, known)
            if k is not None:
                known_hit.setdefault(k["key"], (k, 0))
                known_hit[k["key"]] = (k, known_hit[k["key"]][1] + v["count"])
                continue
            rep = {
                "property": pid, "tier": tier, "seed": seed, "run_index": v["run_index"],
                "run_seed": v["seed"], "fault": v["fault"],
                "choices": v.get("choices", v["choices_original"]),
                "choices_original": v["choices_original"],
                "violation": {"invariant": v["invariant"], "site": v["site"],
                              "detail": v["detail"]},
                "trace": v.get("trace", []), "digest": v.get("digest"),
                "occurrences": v["count"], "shrink_runs": v.get("shrink_runs"),
                "src": src_dir(),
            }
            name = "%s-%s.json" % (pid, (v.get("digest") or "x" * 12)[:12])
            path = os.path.join(VERIF, "replays", name)
            with open(path, "w") as fp:
                json.dump(rep, fp, indent=1)
            # the minimised file must reproduce in a fresh interpreter
            e = dict(env)
            e["TMPDIR"] = scratch
            pr = subprocess.run(["/bin/sh", CHECK, pid, "--replay", path, "--quiet"],
                                env=e, capture_output=True, text=True, cwd=VERIF,
                                timeout=900)
            if pr.returncode != 1:
                harness.append("replay of %s did not reproduce exactly (exit %s): %s"
                               % (path, pr.returncode, pr.stdout[-500:] + pr.stderr[-1500:]))
            n_unlisted += 1
            lines.append("VIOLATION property=%s replay=%s" % (pid, path))
            lines.append("  invariant=%s site=%s occurrences=%d detail=%s"
                         % (v["invariant"], v["site"], v["count"],
                            json.dumps(v["detail"])[:700]))
        for key, (k, cnt) in sorted(known_hit.items()):
            print("KNOWN-FINDING: property=%s %s (%s; %d occurrences this run)"
                  % (pid, k["description"], key, cnt))
        wall = time.time() - t0
        zero_probes = [p for p in getattr(prop, "PROBES", []) if not probes.get(p)]
        evidence = {
            "property_id": pid, "tier": tier, "seed": seed, "level": prop.LEVEL,
            "coverage": {
                "evaluations": ev,
                "distinct_nontrivial": len(keys),
                "rule": prop.RULE,
                "samples": samples[:4] or [{"note": "no non-trivial sample recorded"}],
                "scenarios": scen,
                "runs_per_hour": int(ev / wall * 3600) if wall > 0 else 0,
                "sim_time_s": round(sim_ns / 1e9, 3),
                "faults_fired": fired,
                "probes": probes,
                "probes_at_zero": zero_probes,
                "determinism_recheck": recheck,
                "components": prop.COMPONENTS,
                "exhaustive": False,
                "exhaustive_inner_loops": bool(getattr(prop, "EXHAUSTIVE_INNER", False)),
                "workers": nworkers,
                "stopped_at_wall_cap": stopped,
                "scenarios_with_subsampled_fault_positions": sum(
                    r.get("subsampled_scenarios", 0) for r in results),
                "known_findings_hit": {k: c for k, (_, c) in known_hit.items()},
                "source_tree": src_dir(),
            },
            "assumptions": prop.ASSUMPTIONS,
            "wall_s": round(wall, 2),
            "violations": n_unlisted,
        }
        if not harness and ev > 0 and not a.no_evidence:
            os.makedirs(os.path.join(VERIF, "evidence"), exist_ok=True)
            with open(os.path.join(VERIF, "evidence", pid + ".json"), "w") as fp:
                json.dump(evidence, fp, indent=1, sort_keys=True)
        for ln in lines:
            print(ln)
        print("%s tier=%s seed=%d scenarios=%d evaluations=%d distinct_nontrivial=%d "
              "violations=%d known=%d wall=%.1fs sim=%.1fs"
              % (pid, tier, seed, scen, ev, len(keys), n_unlisted, len(known_hit), wall,
                 sim_ns / 1e9))
        if zero_probes:
            print("warning: probes never hit:", ", ".join(zero_probes))
        if harness:
            print("HARNESS-ERROR (%d):" % len(harness))
            for h in harness[:6]:
                print("  " + str(h).replace("\n", "\n  "))
            # a reproduced violation outranks a harness problem met elsewhere in the batch
            return 1 if n_unlisted else 2
        if ev == 0:
            print("HARNESS-ERROR: nothing was executed")
            return 2
        return 1 if n_unlisted else 0
    finally:
        for p, _, logp in procs:
            if p.poll() is None:
                p.kill()
        shutil.rmtree(scratch, ignore_errors=True)


def main(argv=None):
    ap = argparse.ArgumentParser(prog="check")
    ap.add_argument("prop", nargs="?")
    ap.add_argument("--worker")
    ap.add_argument("--tier", default=os.environ.get("VERIF_TIER") or "quick",
                    choices=["quick", "thorough"])
    ap.add_argument("--seed", type=int,
                    default=int(os.environ.get("VERIF_SEED") or DEFAULT_SEED))
    ap.add_argument("--workers", type=int,
                    default=int(os.environ.get("VERIF_WORKERS") or min(16, os.cpu_count() or 1)))
    ap.add_argument("--runs", type=int, default=0)
    ap.add_argument("--wall-cap", type=float, default=0)
    ap.add_argument("--replay")
    ap.add_argument("--quiet", action="store_true")
    ap.add_argument("--no-shrink", action="store_true")
    ap.add_argument("--no-evidence", action="store_true")
    ap.add_argument("--shrink-budget", type=int, default=250)
    # worker-only
    ap.add_argument("--wid", type=int, default=0)
    ap.add_argument("--nworkers", type=int, default=1)
    ap.add_argument("--out")
    ap.add_argument("--deadline", type=float, default=100)
    ap.add_argument("--run-timeout", type=int, default=120)
    ap.add_argument("--recheck", type=int, default=0)
    ap.add_argument("--recheck-every", type=int, default=25)
    ap.add_argument("--keep-digests", type=int, default=40)
    ap.add_argument("--cfg", default="")
    a = ap.parse_args(argv)
    if a.worker:
        a.prop = a.worker
        return worker_main(a)
    if a.replay:
        return replay_main(a)
    if not a.prop:
        ap.error("property id required")
    if a.prop == "selftest-determinism":
        from . import selftest
        return selftest.determinism(a)
    if a.prop == "selftest-mutants":
        from . import selftest
        return selftest.mutants(a)
    a.prop = a.prop.upper()
    return check_main(a)
