"""Run context: event log + digest, probes, fault counters, violations."""
from __future__ import annotations

import hashlib
import json


class Violation(Exception):
    """An oracle failed.  ``invariant`` + ``site`` form the signature used for
    shrinking ("same violation class") and for known-finding matching."""

    def __init__(self, invariant, detail=None, site=""):
        super().__init__(invariant, site)
        self.invariant = invariant
        self.site = site
        self.detail = detail if detail is not None else {}

    @property
    def signature(self):
        return (self.invariant, self.site)

    def to_json(self):
        return {"invariant": self.invariant, "site": self.site,
                "detail": _jsonable(self.detail)}


class HarnessError(Exception):
    """The harness itself misbehaved (escape from the simulation, stuck world,
    model bug).  Never a VIOLATION and never exit 0."""


def _jsonable(x, depth=0):
    if depth > 6:
        return repr(x)
    if isinstance(x, (str, int, float, bool)) or x is None:
        return x
    if isinstance(x, bytes):
        return x.decode("latin-1")
    if isinstance(x, dict):
        return {str(k): _jsonable(v, depth + 1) for k, v in x.items()}
    if isinstance(x, (list, tuple)):
        return [_jsonable(v, depth + 1) for v in x]
    if isinstance(x, (set, frozenset)):
        return sorted((_jsonable(v, depth + 1) for v in x), key=repr)
    return repr(x)


jsonable = _jsonable


class Ctx:
    """Per-world bookkeeping.  Logging never draws choices and never reads a clock."""

    def __init__(self, tier_cfg=None, tier="quick"):
        self.cfg = tier_cfg or {}
        self.tier = tier
        self.events = []          # canonical event log
        self.trace = []           # human-readable operations (for replay files / samples)
        self.probes = {}
        self.faults_fired = {}
        self.sim_ns = 0
        self.nontrivial = False
        self.key_parts = []       # abstract trace used for distinctness
        self.counts = {}          # seam call counts of the fault-free run
        self.fault_sites = None   # prop-specific payload used by faults()
        self.extra = {}

    def log(self, *event):
        self.events.append(event)

    def op(self, text):
        self.trace.append(text)

    def probe(self, name, n=1):
        self.probes[name] = self.probes.get(name, 0) + n

    def fired(self, kind):
        self.faults_fired[kind] = self.faults_fired.get(kind, 0) + 1

    def key(self, *parts):
        self.key_parts.append(parts)

    def digest(self):
        h = hashlib.sha256()
        h.update(json.dumps(_jsonable(self.events), sort_keys=True,
                            separators=(",", ":")).encode())
        return h.hexdigest()

    def abstract_key(self):
        h = hashlib.sha256()
        h.update(json.dumps(_jsonable(self.key_parts), sort_keys=True,
                            separators=(",", ":")).encode())
        return h.hexdigest()[:20]


def check(cond, invariant, detail=None, site=""):
    if not cond:
        raise Violation(invariant, detail() if callable(detail) else detail, site)
