"""SimTTY (kernel side of the terminal device), module facades, SimStdout."""
from __future__ import annotations

import copy
import fcntl as real_fcntl
import os as real_os
import select as real_select
import termios as real_termios

from .core import HarnessError, Violation
from .kernel import NS, build_exc

FD_TTY = 1000   # what term_image.utils._tty_fd is mapped to
FD_OUT = 1001   # SimStdout.fileno()
SIM_FDS = (FD_TTY, FD_OUT)


def default_attrs():
    """Normalised attribute state: [iflag, oflag, cflag, lflag, ispeed, ospeed, cc] with
    cc a list of 32 ints (the kernel's c_cc bytes)."""
    t = real_termios
    cc = [0] * 32
    cc[t.VINTR] = 3
    cc[t.VEOF] = 4
    cc[t.VERASE] = 0x7F
    cc[t.VMIN] = 1
    cc[t.VTIME] = 0
    iflag = t.ICRNL | t.IXON
    oflag = t.OPOST | t.ONLCR
    cflag = t.CS8 | t.CREAD
    lflag = t.ISIG | t.ICANON | t.ECHO | t.ECHOE | t.ECHOK | t.IEXTEN
    return [iflag, oflag, cflag, lflag, t.B38400, t.B38400, cc]


class SimTTY:
    def __init__(self, kernel, vterm, ch=None):
        self.k = kernel
        self.vt = vterm
        self.attrs = default_attrs()
        self.inq = bytearray()
        self.last_reply_at = 0
        self.delay_fn = lambda kind: 0      # ns
        self.ioctl_pixels = True            # TIOCGWINSZ reports pixel sizes
        self.ioctl_fails = False
        self.get_size_fails = False
        self.replies_scheduled = 0
        self.replies_delivered = 0
        self.reply_log = []
        self.writes = []                    # raw bytes written to the tty fd (queries)
        self.shutil_size = (80, 24)
        vterm.reply = self._on_reply
        self.environ = {"TERM": "xterm-256color", "SHELL": "/bin/sh", "HOME": "/root",
                        "PATH": real_os.environ.get("PATH", "/usr/bin:/bin"),
                        "LANG": "C.UTF-8"}
        self.echoed = 0
        self.reply_filter = None            # optional fn(kind, data) -> data|None

    def export_attrs(self):
        """tcgetattr() view: cc entries are 1-byte ``bytes`` except VMIN/VTIME, which
        CPython returns as ints when ICANON is off."""
        a = self.attrs
        cc = [bytes([v]) for v in a[6]]
        if not a[3] & real_termios.ICANON:
            cc[real_termios.VMIN] = a[6][real_termios.VMIN]
            cc[real_termios.VTIME] = a[6][real_termios.VTIME]
        return [a[0], a[1], a[2], a[3], a[4], a[5], cc]

    def mark_entry(self):
        self.entry_attrs = copy.deepcopy(self.attrs)
        return self.entry_attrs

    # -- line discipline -----------------------------------------------------------

    @property
    def lflag(self):
        return self.attrs[3]

    def canonical(self):
        return bool(self.lflag & real_termios.ICANON)

    def echo(self):
        return bool(self.lflag & real_termios.ECHO)

    def _on_reply(self, kind, data):
        if self.reply_filter is not None:
            data = self.reply_filter(kind, data)
            if data is None:
                return
        d = int(self.delay_fn(kind))
        t = max(self.last_reply_at, self.k.now + d)
        self.last_reply_at = t
        self.replies_scheduled += 1
        self.reply_log.append((kind, t))
        self.k.at(t, lambda: self.input_arrives(data), "reply:" + kind)

    def input_arrives(self, data):
        self.replies_delivered += 1
        self.inq.extend(data)
        if self.echo():
            self.echoed += len(data)
            # echoed input is visible on the screen (control chars as ^X in real ttys;
            # the model feeds them raw, which is enough to make a lost echo-off visible)
            self.vt.feed(bytes(data))

    def readable(self):
        if not self.inq:
            return False
        if self.canonical():
            return b"\n" in self.inq
        return True

    # -- output ----------------------------------------------------------------------

    def output(self, data):
        if self.attrs[1] & real_termios.OPOST and self.attrs[1] & real_termios.ONLCR:
            data = data.replace(b"\n", b"\r\n")
        self.vt.feed(data)

    # -- winsize ---------------------------------------------------------------------

    def winsize(self):
        vt = self.vt
        if self.ioctl_pixels:
            return (vt.rows, vt.cols, vt.cols * vt.cell_px[0], vt.rows * vt.cell_px[1])
        return (vt.rows, vt.cols, 0, 0)


def normalize_attrs(attrs):
    """What the kernel would store for a tcsetattr() argument (CPython rules)."""
    if not isinstance(attrs, list) or len(attrs) != 7:
        raise TypeError("tcsetattr, arg 3: must be 7 element list")
    cc = attrs[6]
    if not isinstance(cc, list) or len(cc) != 32:
        raise TypeError("tcsetattr: attributes[6] must be %d element list" % 32)
    out = []
    for x in cc:
        if isinstance(x, bytes) and len(x) == 1:
            out.append(x[0])
        elif isinstance(x, int) and not isinstance(x, bool):
            out.append(x & 0xFF)
        else:
            raise TypeError("tcsetattr: elements of attributes must be characters or integers")
    for v in attrs[:6]:
        if not isinstance(v, int):
            raise TypeError("tcsetattr: an integer is required")
    return [attrs[0], attrs[1], attrs[2], attrs[3], attrs[4], attrs[5], out]


class FakeTermios:
    def __init__(self, tty):
        self._tty = tty
        self.error = real_termios.error

    def __getattr__(self, name):
        return getattr(real_termios, name)

    def _chk(self, fd):
        if fd not in SIM_FDS:
            raise real_termios.error(25, "Inappropriate ioctl for device (fd %r)" % (fd,))

    def tcgetattr(self, fd):
        self._chk(fd)
        k = self._tty.k
        k.seam("tty.tcgetattr")
        out = self._tty.export_attrs()
        k.seam_after("tty.tcgetattr")
        return out

    def tcsetattr(self, fd, when, attrs):
        self._chk(fd)
        tty = self._tty
        k = tty.k
        norm = normalize_attrs(attrs)
        # A TCSANOW call is one non-blocking ioctl: a signal is handled after it has taken
        # effect, so the call that puts the entry attributes back is never pre-empted.  A
        # draining call (TCSADRAIN / TCSAFLUSH) first waits for pending output and can be
        # interrupted while it waits, before anything was applied: it is an ordinary seam.
        restoring = tty.entry_attrs is not None and norm == tty.entry_attrs \
            and when == real_termios.TCSANOW
        if restoring:
            # the restoring call is clean-up: never pre-empt its effect
            k.in_cleanup = True
            k.counts["tty.tcsetattr.restore"] = k.counts.get("tty.tcsetattr.restore", 0) + 1
            if k.log_seams:
                k.ctx.log("seam", "tty.tcsetattr.restore")
        else:
            k.seam("tty.tcsetattr", when)
        tty.attrs = norm
        tty.attr_changes += 1
        if when == real_termios.TCSAFLUSH:
            tty.flushed_bytes += len(tty.inq)
            tty.inq.clear()
        if not restoring:
            k.seam_after("tty.tcsetattr")

    def tcdrain(self, fd):
        self._chk(fd)
        k = self._tty.k
        k.seam("tty.tcdrain")
        if self._tty.tcdrain_refused:
            # some platforms (Termux) refuse it for good: "Permission denied"
            raise real_termios.error(13, "Permission denied")
        k.seam_after("tty.tcdrain")

    def tcflush(self, fd, queue):
        self._chk(fd)
        self._tty.k.seam("tty.tcflush")
        self._tty.inq.clear()
        self._tty.k.seam_after("tty.tcflush")


SimTTY.write_hook = None
SimTTY.entry_attrs = None
SimTTY.attr_changes = 0
SimTTY.flushed_bytes = 0


class FakeFcntl:
    def __init__(self, tty):
        self._tty = tty

    def __getattr__(self, name):
        return getattr(real_fcntl, name)

    def ioctl(self, fd, request, arg=0, mutate_flag=True):
        if fd not in SIM_FDS:
            return real_fcntl.ioctl(fd, request, arg, mutate_flag)
        tty = self._tty
        tty.k.seam("tty.ioctl")
        if request != real_termios.TIOCGWINSZ:
            raise OSError(25, "simulated: unsupported ioctl")
        if tty.ioctl_fails:
            raise OSError(25, "simulated: ioctl failed")
        ws = tty.winsize()
        for i in range(4):
            arg[i] = ws[i]
        return 0


class FakeOS:
    """Facade for the ``os`` module as imported by a term_image module."""

    def __init__(self, tty):
        self._tty = tty
        self.environ = tty.environ

    def __getattr__(self, name):
        return getattr(real_os, name)

    def getenv(self, key, default=None):
        return self.environ.get(key, default)

    def get_terminal_size(self, fd=1):
        if fd not in SIM_FDS:
            return real_os.get_terminal_size(fd)
        tty = self._tty
        tty.k.seam("tty.get_size")
        if tty.get_size_fails:
            raise OSError(25, "simulated: not a tty")
        return real_os.terminal_size((tty.vt.cols, tty.vt.rows))

    def write(self, fd, data):
        if fd not in SIM_FDS:
            # only the library's URL temp-file copy writes to a real descriptor
            self._tty.k.seam("tmp.write", len(data))
            n = real_os.write(fd, data)
            self._tty.k.seam_after("tmp.write")
            return n
        tty = self._tty
        tty.k.seam("tty.write", len(data))
        if tty.write_hook is not None:
            tty.write_hook(bytes(data))
        n = len(data)
        if tty.short_write is not None:
            n = tty.short_write(data)       # the terminal takes only a prefix this time
            data = bytes(data)[:n]
        tty.writes.append(bytes(data))
        tty.output(bytes(data))
        tty.k.seam_after("tty.write")
        return n

    def read(self, fd, n):
        if fd not in SIM_FDS:
            return real_os.read(fd, n)
        tty = self._tty
        k = tty.k
        k.seam("tty.read", n)
        cc = tty.attrs[6]
        if tty.canonical():
            k.block_until(tty.readable, None, "read(canonical)")
            i = tty.inq.index(b"\n") + 1
            m = min(n, i)
        else:
            vmin = cc[real_termios.VMIN]
            vtime = cc[real_termios.VTIME]
            if vmin > 0:
                need = min(vmin, n)
                if vtime == 0:
                    k.block_until(lambda: len(tty.inq) >= need, None, "read(VMIN=%d)" % vmin)
                else:
                    # inter-byte timer: not used by the library; approximate
                    k.block_until(lambda: len(tty.inq) >= need, None, "read(VMIN,VTIME)")
            elif vtime > 0:
                k.block_until(lambda: len(tty.inq) > 0, k.now + vtime * NS // 10, "read(VTIME)")
            m = min(n, len(tty.inq))
        data = bytes(tty.inq[:m])
        del tty.inq[:m]
        tty.bytes_read += len(data)
        k.seam_after("tty.read")
        return data

    def isatty(self, fd):
        if fd in SIM_FDS:
            return True
        return real_os.isatty(fd)

    def ttyname(self, fd):
        if fd in SIM_FDS:
            return "/dev/pts/sim"
        return real_os.ttyname(fd)


SimTTY.bytes_read = 0
SimTTY.short_write = None
SimTTY.tcdrain_refused = False


def make_select(tty):
    def select(r, w, x, timeout=None):
        if not r or any(fd not in SIM_FDS for fd in r) or w or x:
            return real_select.select(r, w, x, timeout)
        k = tty.k
        k.seam("tty.select", timeout)
        if timeout is not None and timeout < 0:
            raise ValueError("timeout must be non-negative")
        if timeout is None:
            deadline = None
        elif timeout == 0:
            deadline = k.now
        else:
            # a positive timeout always lets virtual time move (no zero-length waits)
            deadline = k.now + max(1, int(-(-timeout * NS // 1)))
        ok = k.block_until(tty.readable, deadline, "select")
        k.seam_after("tty.select")
        return ([r[0]] if ok else [], [], [])
    return select


def make_shutil_size(tty):
    def get_terminal_size(fallback=(80, 24)):
        return real_os.terminal_size(tty.shutil_size)
    return get_terminal_size


class SimStdout:
    """stdout as a faultable text stream in front of the SimTTY (or a plain sink)."""

    encoding = "utf-8"
    errors = "strict"
    name = "<sim-stdout>"
    closed = False

    def __init__(self, kernel, tty, isatty=True, buffered=False, retain=False):
        self.k = kernel
        self.tty = tty
        self._isatty = isatty
        self.buffered = buffered
        self.retain = retain           # partial-write remainder kept (BufferedWriter-like)
        self.buf = bytearray()
        self.sink = bytearray()        # everything delivered (also when not a tty)
        self.write_log = []            # text of every write() call (truncated), in order
        self.call_log = []             # "w" / "f" in call order
        self.flush_log = []            # bytes pending at every flush() call (keep_full only)
        self.pend_log = []             # bytes pending at every write() call (keep_full only)
        self.keep_full = False

    # text-IO protocol
    def isatty(self):
        return self._isatty

    def fileno(self):
        return FD_OUT

    def writable(self):
        return True

    def readable(self):
        return False

    def _seam(self, kind, n):
        """The seam call of write() / flush(); a fault marked ``closes`` also shuts the stream
        down (a wrapper that closes itself when its device fails), the descriptor of the
        terminal staying open."""
        try:
            return self.k.seam(kind, n)
        except BaseException:
            f = self.k.fault
            if f is not None and f.get("closes") and f.get("kind") == kind:
                self.closed = True
            raise

    def _deliver(self, data):
        if not data:
            return
        self.sink.extend(data)
        if self.tty is not None:
            self.tty.output(bytes(data))

    def write(self, s):
        if not isinstance(s, str):
            raise TypeError("write() argument must be str, not %s" % type(s).__name__)
        data = s.encode("utf-8")
        if self.closed:
            raise ValueError("I/O operation on closed file.")
        self.write_log.append(s if (len(s) <= 24 or self.keep_full) else s[:24])
        self.call_log.append("w")
        self.pend_log.append(bytes(self.buf) if self.keep_full else b"")
        f = self._seam("out.write", len(data))
        if f is not None:  # partial delivery
            return self._partial(f, data)
        if self.buffered:
            self.buf.extend(data)
            if self._isatty and ("\n" in s or "\r" in s):
                # a tty stdout is line-buffered (TextIOWrapper line_buffering=True)
                pend = bytes(self.buf)
                self.buf.clear()
                self._deliver(pend)
        else:
            if self.buf:
                pend = bytes(self.buf)
                self.buf.clear()
                self._deliver(pend)
            self._deliver(data)
        self.k.seam_after("out.write")
        return len(s)

    def _partial(self, f, data):
        # everything already buffered plus a prefix of this write reaches the device
        whole = bytes(self.buf) + data
        cut = f.get("cut", 0)
        if cut < 0:
            cut = max(0, len(data) + cut)
        cut = min(cut, len(data))
        n = len(self.buf) + cut
        if "cut_total" in f:
            # the device took a prefix of everything that was pending, possibly ending inside
            # data buffered by earlier write() calls
            n = min(max(0, f["cut_total"]), len(whole))
        self.buf.clear()
        self._deliver(whole[:n])
        if self.retain:
            self.buf.extend(whole[n:])
            if whole[n:]:
                self.k.ctx.probe("retained_remainder_delivered_later")
        self.k.ctx.log("partial-write", cut, len(data), self.retain)
        raise build_exc(f.get("exc", "KeyboardInterrupt"))

    def flush(self):
        if self.closed:
            raise ValueError("I/O operation on closed file.")
        self.call_log.append("f")
        self.flush_log.append(bytes(self.buf) if self.keep_full else b"")
        f = self._seam("out.flush", len(self.buf))
        if f is not None:
            whole = bytes(self.buf)
            cut = min(max(0, f.get("cut", 0)), len(whole))
            self.buf.clear()
            self._deliver(whole[:cut])
            if self.retain:
                self.buf.extend(whole[cut:])
            raise build_exc(f.get("exc", "KeyboardInterrupt"))
        if self.buf:
            pend = bytes(self.buf)
            self.buf.clear()
            self._deliver(pend)
        self.k.seam_after("out.flush")

    def drain(self):
        """Harness-side: what a later flush (at the latest at exit) would deliver."""
        if self.buf:
            pend = bytes(self.buf)
            self.buf.clear()
            self._deliver(pend)

    def close(self):
        pass
