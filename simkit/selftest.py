"""Self-tests: determinism (same seed => same event-log digest across processes,
PYTHONHASHSEED values and worker counts) and sensitivity (seeded mutants)."""
from __future__ import annotations

import glob
import importlib
import json
import os
import shutil
import subprocess
import sys
import tempfile
import time

from .runner import CHECK, PROPS, VERIF, src_dir


def _built():
    out = []
    for pid in PROPS:
        try:
            importlib.import_module("props." + pid.lower())
            out.append(pid)
        except ImportError:
            pass
    return out


def _spawn(pid, tier, seed, wid, nworkers, runs, out, hashseed, scratch, keep):
    env = dict(os.environ)
    env.update({"PYTHONHASHSEED": str(hashseed), "VERIF_SRC": src_dir(),
                "PYTHONPYCACHEPREFIX": os.path.join(scratch, "pycache"),
                "PYTHONWARNINGS": "ignore",
                "TMPDIR": os.path.join(scratch, "tmp-%s-%s" % (hashseed, wid))})
    env.pop("PYTHONDONTWRITEBYTECODE", None)
    os.makedirs(env["TMPDIR"], exist_ok=True)
    cmd = ["/bin/sh", CHECK, "--worker", pid, "--tier", tier, "--seed", str(seed),
           "--wid", str(wid), "--nworkers", str(nworkers), "--runs", str(runs),
           "--out", out, "--deadline", "600", "--keep-digests", str(keep), "--no-shrink"]
    return subprocess.Popen(cmd, env=env, stdout=subprocess.DEVNULL,
                            stderr=subprocess.DEVNULL, cwd=VERIF)


def determinism(a):
    runs = a.runs or 200
    props = _built()
    scratch = tempfile.mkdtemp(prefix="verif-selftest-")
    bad = 0
    t0 = time.time()
    try:
        jobs = []
        for pid in props:
            # A: one worker, hashseed 0; B: one worker, hashseed 12345; C/D: two workers
            cfgs = [("A", 0, 1, 0), ("B", 0, 1, 12345), ("C", 0, 2, 7), ("D", 1, 2, 7)]
            for tag, wid, nw, hs in cfgs:
                out = os.path.join(scratch, "%s-%s.json" % (pid, tag))
                jobs.append((pid, tag, out,
                             _spawn(pid, a.tier, a.seed, wid, nw, runs, out, hs, scratch, runs)))
        res = {}
        for pid, tag, out, p in jobs:
            p.wait(timeout=1800)
            if p.returncode != 0:
                print("selftest: worker %s/%s exit %s" % (pid, tag, p.returncode))
                bad += 1
                continue
            with open(out) as fp:
                r = json.load(fp)
            if r["harness_errors"]:
                print("selftest: %s/%s harness errors: %s" % (pid, tag, r["harness_errors"][:2]))
                bad += 1
            res[(pid, tag)] = r["digests"]
        for pid in props:
            A = res.get((pid, "A"), {})
            B = res.get((pid, "B"), {})
            CD = dict(res.get((pid, "C"), {}))
            CD.update(res.get((pid, "D"), {}))
            n = mism = 0
            for k, d in A.items():
                for other in (B, CD):
                    if k in other:
                        n += 1
                        if other[k] != d:
                            mism += 1
            print("selftest-determinism %s: %d digests compared, %d mismatches" % (pid, n, mism))
            if mism or not n:
                bad += 1
        print("selftest-determinism: %d properties, %.1fs" % (len(props), time.time() - t0))
        return 2 if bad else 0
    finally:
        shutil.rmtree(scratch, ignore_errors=True)


def mutants(a):
    """Apply each seeded/selftest patch to a scratch copy of /repo/src and expect the
    property's quick check to exit 1 with a reproducing replay; exit 0 on the clean copy."""
    patches = sorted(glob.glob(os.path.join(VERIF, "selftest", "mutants", "*.patch"))
                     + glob.glob(os.path.join(VERIF, "seeded", "*", "patch.diff")))
    if a.cfg:
        patches = [p for p in patches if a.cfg in p]
    results = []
    for patch in patches:
        meta = {}
        mp = os.path.join(os.path.dirname(patch), "meta.json")
        if os.path.basename(patch) == "patch.diff" and os.path.exists(mp):
            meta = json.load(open(mp))
            pids = meta.get("properties") or [meta.get("property")]
        else:
            pids = [os.path.basename(patch).split("-")[0].upper()]
        scratch = tempfile.mkdtemp(prefix="verif-mut-")
        try:
            shutil.copytree(os.environ.get("VERIF_SRC") or "/repo/src", os.path.join(scratch, "src"))
            pr = subprocess.run(["patch", "-p1", "-s", "-d", scratch, "-i", patch],
                                capture_output=True, text=True)
            if pr.returncode != 0:
                results.append((patch, pids, "patch-failed", pr.stdout + pr.stderr))
                continue
            for pid in pids:
                env = dict(os.environ)
                env["VERIF_SRC"] = os.path.join(scratch, "src")
                t0 = time.time()
                r = subprocess.run(["/bin/sh", CHECK, pid, "--tier", "quick", "--no-evidence",
                                    "--seed", str(a.seed)],
                                   env=env, capture_output=True, text=True, cwd=VERIF)
                viol = [l for l in r.stdout.splitlines() if l.startswith("  invariant=")]
                results.append((patch, pid, "exit %d" % r.returncode,
                                "%.0fs %s" % (time.time() - t0, viol[:2])))
                print(os.path.relpath(patch, VERIF), pid, "exit", r.returncode,
                      "%.0fs" % (time.time() - t0), viol[:1], flush=True)
        finally:
            shutil.rmtree(scratch, ignore_errors=True)
    caught = sum(1 for r in results if r[2] == "exit 1")
    print("selftest-mutants: %d/%d caught" % (caught, len(results)))
    os.makedirs(os.path.join(VERIF, "selftest"), exist_ok=True)
    with open(os.path.join(VERIF, "selftest", "last_run.json"), "w") as fp:
        json.dump([list(map(str, r)) for r in results], fp, indent=1)
    return 0
