"""The only source of randomness in a simulated world.

generate mode: values come from random.Random(seed);
replay mode:   values come from a recorded list (exhausted or out of range => lowest
               legal value), which is what makes shrinking by list surgery sound.
Every draw is recorded in ``values`` (and ``labels`` for readable traces).
"""
from __future__ import annotations

import hashlib
import random


def derive_seed(*parts) -> int:
    h = hashlib.sha256(repr(parts).encode()).digest()
    return int.from_bytes(h[:8], "big")


class Choices:
    __slots__ = ("rng", "replay", "pos", "values", "labels")

    def __init__(self, seed=None, replay=None):
        if replay is None:
            self.rng = random.Random(seed)
            self.replay = None
        else:
            self.rng = None
            self.replay = list(replay)
        self.pos = 0
        self.values = []
        self.labels = []

    def int(self, label, lo, hi):
        """Uniform integer in [lo, hi]."""
        if hi < lo:
            hi = lo
        if self.replay is None:
            v = self.rng.randint(lo, hi)
        else:
            v = self.replay[self.pos] if self.pos < len(self.replay) else lo
            if not isinstance(v, int) or not lo <= v <= hi:
                v = lo
        self.pos += 1
        self.values.append(v)
        self.labels.append(label)
        return v

    def bool(self, label, p=0.5):
        """True with probability p (replay: stored 0/1)."""
        if self.replay is None:
            v = 1 if self.rng.random() < p else 0
        else:
            v = self.replay[self.pos] if self.pos < len(self.replay) else 0
            v = 1 if v == 1 else 0
        self.pos += 1
        self.values.append(v)
        self.labels.append(label)
        return bool(v)

    def pick(self, label, seq):
        return seq[self.int(label, 0, len(seq) - 1)]

    def weighted(self, label, pairs):
        """pairs: [(weight:int, item)]; replay value is the item index."""
        if self.replay is None:
            total = sum(w for w, _ in pairs)
            r = self.rng.randrange(total)
            idx = 0
            for idx, (w, _) in enumerate(pairs):
                if r < w:
                    break
                r -= w
            v = idx
        else:
            v = self.replay[self.pos] if self.pos < len(self.replay) else 0
            if not isinstance(v, int) or not 0 <= v < len(pairs):
                v = 0
        self.pos += 1
        self.values.append(v)
        self.labels.append(label)
        return pairs[v][1]

    def skewed(self, label, lo, hi):
        """Integer in [lo, hi] biased toward the ends and small values (swarm style)."""
        mode = self.int(label + ".m", 0, 3)
        if mode == 0:
            return self.int(label, lo, min(hi, lo + 3))
        if mode == 1:
            return self.int(label, max(lo, hi - 3), hi)
        return self.int(label, lo, hi)


def shrink(values, still_fails, budget=300):
    """Minimise a choice list while ``still_fails(list) -> bool`` holds.

    Passes: shorter prefixes, delete blocks (halving sizes), zero values, halve
    values.  Replay pads an exhausted list with lowest legal values and maps
    out-of-range values to the lowest legal one, so every candidate is a legal run.
    Bounded by ``budget`` executions.  Returns (minimised list, executions used).
    """
    used = 0
    best = list(values)

    def test(cand):
        nonlocal used, best
        if used >= budget or cand == best:
            return False
        used += 1
        if still_fails(cand):
            best = list(cand)
            return True
        return False

    # 1. shorter prefixes
    changed = True
    while changed and used < budget:
        changed = False
        n = len(best)
        for cut in (0, n // 4, n // 2, (3 * n) // 4, n - 1):
            if 0 <= cut < len(best) and test(best[:cut]):
                changed = True
                break
    # 2. delete blocks
    size = max(1, len(best) // 2)
    while size >= 1 and used < budget:
        i = 0
        while i < len(best) and used < budget:
            if not test(best[:i] + best[i + size:]):
                i += size
        size //= 2
    # 3. zero, then halve values
    i = 0
    while i < len(best) and used < budget:
        if best[i] != 0:
            cand = list(best)
            cand[i] = 0
            if not test(cand):
                v = best[i]
                while v > 1 and used < budget:
                    v //= 2
                    cand = list(best)
                    cand[i] = v
                    if not test(cand):
                        break
        i += 1
    # 4. another round of single deletions (zeroing often enables them)
    i = 0
    while i < len(best) and used < budget:
        if not test(best[:i] + best[i + 1:]):
            i += 1
    while best and best[-1] == 0 and used < budget:
        if not test(best[:-1]):
            break
    return best, used
