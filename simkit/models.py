"""Reference models shared by several properties: terminal profiles and the
"terminal facts" model (what the query functions must report, with the documented
caching rules)."""
from __future__ import annotations

from .vterm import Profile

IDENTITIES = [
    # (name as sent, version, xtversion format, kitty-graphics capable, iterm2-image mode)
    ("kitty", "0.19.3", "paren", True, None),
    ("kitty", "0.20.0", "paren", True, None),
    ("kitty", "0.25.0", "paren", True, None),
    ("kitty", "0.25.1", "paren", True, None),
    ("kitty", "0.31.0", "paren", True, None),
    ("Konsole", "22.03.9", "space", True, "placement"),
    ("Konsole", "22.04.0", "space", True, "placement"),
    ("Konsole", "23.08.1", "space", True, "placement"),
    ("WezTerm", "20230712-072601-f4abf8fd", "space", True, "cells"),
    ("WezTerm", "20220101-133340-7edc5b5a", "space", False, "cells"),
    ("iTerm2", "3.4.19", "space", False, "cells"),
    ("iTerm2", "3.5.0beta9", "space", False, "cells"),
    ("XTerm", "370", "paren", False, None),
    ("foot", "1.13.1", "paren", False, None),
    ("mintty", "3.6.1", "space", False, None),
    ("contour", "0.3.12.262", "space", True, None),
    ("kitty", "0.26.5", "paren", True, None),
]

ENV_PROGRAMS = [
    None,
    ("WezTerm", "20230712-072601-f4abf8fd"),
    ("iTerm.app", "3.4.19"),
    ("vscode", "1.84.2"),
    ("Apple_Terminal", "447"),
    ("tmux", "3.3a"),
]


def gen_profile(ch, always_da1=None):
    name, version, fmt, kg, it = ch.pick("ident", IDENTITIES)
    if name in ("kitty", "Konsole") and ch.bool("seeded_version", 0.5):
        # versions around (and well away from) the documented thresholds, incl. a small minor
        # number under a large major one
        if name == "kitty":
            version = "0.%d.%d" % (ch.int("kminor", 17, 33), ch.int("kpatch", 0, 3))
        else:
            version = "%d.%02d.%d" % (ch.int("kyear", 21, 25),
                                      ch.pick("kmonth", (1, 2, 3, 4, 5, 8, 11, 12)),
                                      ch.pick("kpatch", (0, 1, 2, 3, 80, 90)))
    answers = set()
    for q, p in (("da1", 0.9), ("xtversion", 0.8), ("osc10", 0.8), ("osc11", 0.8),
                 ("14t", 0.75), ("16t", 0.6)):
        if ch.bool("ans." + q, p):
            answers.add(q)
    if always_da1:
        answers.add("da1")
    mode = ch.int("hexmode", 0, 3)
    if mode == 0:
        widths = (4,) * 6
    elif mode == 1:
        widths = (2,) * 6
    elif mode == 2:
        w = ch.int("hexw", 1, 4)
        widths = (w,) * 6
    else:
        widths = tuple(ch.int("hexw%d" % i, 1, 4) for i in range(6))
    fg = tuple(ch.pick("c16", (0, 0xFFFF, 0x8080, 0x1234, 0xF0F0, 0x0101, 0xABCD, 0x7FFF))
               for _ in range(3))
    bg = tuple(ch.pick("c16", (0, 0xFFFF, 0x8080, 0x1234, 0xF0F0, 0x0101, 0xABCD, 0x7FFF))
               for _ in range(3))
    kitty_graphics = kg and ch.bool("kg", 0.85)
    p = Profile(name=name, version=version, xtversion_fmt=fmt, answers=answers, fg=fg, bg=bg,
                hex_widths=widths, osc_term="ST" if ch.bool("st", 0.6) else "BEL",
                kitty_graphics=kitty_graphics, iterm2_images=it)
    p.hex_case = ch.pick("hexcase", ("lower", "lower", "upper", "mixed"))
    return p


def parse_version(v):
    try:
        return tuple(map(int, v.split(".")))
    except (ValueError, AttributeError):
        return None


class FactsModel:
    """What the terminal-facts API must report.

    Memoisation rules modelled (all documented): colours and name/version are computed
    once until ``enable_queries`` follows a disabled period; style support is
    determined the first time it is asked; the cell size is cached per terminal size
    in cells and dropped by either toggle of the win-size swap and by re-enabling
    queries.
    """

    def __init__(self, profile, env, vt, tty):
        self.p = profile
        self.env = env
        self.vt = vt
        self.tty = tty
        self.queries = True
        self.swap = False
        self.colors = None
        self.namever = None
        self.support = {}
        self.cell = None           # (terminal size, value)
        self.reports_swapped = False

    # -- fresh computations ----------------------------------------------------------

    def fresh_colors(self):
        if not self.queries:
            return (None, None)
        fg = self.p.expected_color(10) if "osc10" in self.p.answers else None
        bg = self.p.expected_color(11) if "osc11" in self.p.answers else None
        return (fg, bg)

    def fresh_namever(self):
        if self.queries and "xtversion" in self.p.answers:
            return (self.p.name.lower(), self.p.version)
        name = self.env.get("TERM_PROGRAM")
        return (name and name.lower(), self.env.get("TERM_PROGRAM_VERSION"))

    def reported_px(self):
        """(width_px, height_px) of the text area as the terminal reports it."""
        vt = self.vt
        w, h = vt.cols * vt.cell_px[0], vt.rows * vt.cell_px[1]
        return (w, h)

    def fresh_cell(self):
        vt = self.vt
        size = (vt.cols, vt.rows)
        area = None
        if self.tty.ioctl_pixels and not self.tty.ioctl_fails:
            area = self.reported_px()
            if 0 in area:
                area = None
        if area is None:
            if not self.queries:
                return None
            if vt.report_px and "16t" in self.p.answers:
                return tuple(vt.cell_px)
            if vt.report_px and "14t" in self.p.answers:
                area = self.reported_px()
        if area is None:
            return None
        if self.swap:
            area = area[::-1]
        cell = (area[0] // size[0], area[1] // size[1])
        return None if 0 in cell else cell

    def fresh_support(self, style):
        if style in ("kitty", "iterm2"):
            name, version = self.get_namever()
        if style == "kitty":
            if name == "iterm2":
                return False
            if not (self.queries and self.p.kitty_graphics):
                return False
            if name == "kitty" and version:
                vt = parse_version(version)
                return vt is not None and vt >= (0, 20, 0)
            return name == "konsole"
        if style == "iterm2":
            if name in ("iterm2", "wezterm"):
                return True
            if name == "konsole":
                vt = parse_version(version)
                return vt is not None and vt >= (22, 4, 0)
            return False
        if style == "block":
            ct = self.env.get("COLORTERM") or ""
            term = self.env.get("TERM") or ""
            return "truecolor" in ct or "24bit" in ct or "256color" in term
        raise ValueError(style)

    # -- memoised views ----------------------------------------------------------------

    def get_colors(self, hexa=False):
        """Memoised per distinct argument tuple (``hex=True`` / ``hex=False``)."""
        if self.colors is None:
            self.colors = {}
        if hexa not in self.colors:
            self.colors[hexa] = self.fresh_colors()
        return self.colors[hexa]

    def get_namever(self):
        if self.namever is None:
            self.namever = self.fresh_namever()
        return self.namever

    def get_cell(self):
        size = (self.vt.cols, self.vt.rows)
        if self.cell is None or self.cell[0] != size:
            self.cell = (size, self.fresh_cell())
        return self.cell[1]

    def get_support(self, style):
        if style not in self.support:
            self.support[style] = self.fresh_support(style)
        return self.support[style]

    def auto_style(self):
        for s in ("kitty", "iterm2", "block"):
            if self.get_support(s):
                return s
        return "block"

    # -- events --------------------------------------------------------------------------

    def disable_queries(self):
        self.queries = False

    def enable_queries(self):
        if not self.queries:
            self.queries = True
            self.colors = None
            self.namever = None
            self.cell = None

    def set_swap(self, on):
        if self.swap != on:
            self.swap = on
            self.cell = None
