"""Kernel: virtual clock, event heap, fault seams, baton-passed tasks, simulated locks.

Single-task worlds run inline on the calling thread.  Multi-task worlds use real
threads of which exactly one runs at a time; the scheduler (this module, driven by
Choices) decides who runs next at every yield point.
"""
from __future__ import annotations

import heapq
import sys
import threading

from .core import HarnessError, Violation

NS = 10 ** 9


class FaultFired(Exception):
    pass


class SimTimeoutAbort(BaseException):
    """Raised inside task threads to unwind them when a world is torn down."""


def build_exc(name):
    import termios
    if name == "KeyboardInterrupt":
        return KeyboardInterrupt()
    if name == "SystemExit":
        return SystemExit(143)      # what a SIGTERM handler calling sys.exit() raises
    if name == "OSError":
        return OSError(5, "simulated I/O error")
    if name == "EINTR":
        return InterruptedError(4, "simulated EINTR")
    if name == "ENOSPC":
        return OSError(28, "simulated: no space left on device")
    if name == "termios.error":
        return termios.error(5, "simulated termios error")
    if name == "RuntimeError":
        return RuntimeError("simulated failure")
    if name == "ValueError":
        return ValueError("simulated failure")
    if name == "AttributeError":
        return AttributeError("simulated failure: 'NoneType' object has no attribute 'im'")
    if name == "StopIteration":
        return StopIteration()
    if name == "MemoryError":
        return MemoryError("simulated allocation failure")
    if name == "ConnectionError":
        import requests
        return requests.exceptions.ConnectionError("simulated connection error")
    raise HarnessError("unknown exception name %r" % (name,))


class Task:
    def __init__(self, kernel, tid, name, fn, proc):
        self.kernel = kernel
        self.tid = tid
        self.name = name
        self.fn = fn
        self.proc = proc
        self.sem = threading.Semaphore(0)
        self.state = "ready"   # ready | blocked | done
        self.pred = None
        self.deadline = None
        self.what = ""
        self.exc = None
        self.result = None
        self.thread = None
        self.priority = 0
        self.steps = 0


class Kernel:
    def __init__(self, ctx, ch, fault=None):
        self.ctx = ctx
        self.ch = ch
        self.now = 0
        self.seq = 0
        self.heap = []
        self.counts = {}
        self.fault = fault if (fault and fault.get("kind") != "none") else None
        self.fault_done = False
        self.in_cleanup = False
        self.cost_ns = {}          # seam kind -> ns per call
        self.log_seams = True
        # multitasking
        self.tasks = []
        self.current = None
        self.main_sem = threading.Semaphore(0)
        self.multitask = False
        self.policy = "random"
        self.switches = 0
        self.steps = 0
        self.step_cap = 200000
        self.sched_trace = []
        self.aborting = False
        self.pct_points = ()
        self.contended = 0

    # ------------------------------------------------------------------ clock / events

    def at(self, t, fn, label=""):
        self.seq += 1
        heapq.heappush(self.heap, (max(t, self.now), self.seq, fn, label))

    def after(self, d, fn, label=""):
        self.at(self.now + d, fn, label)

    def _run_next_event(self):
        t, _, fn, label = heapq.heappop(self.heap)
        if t > self.now:
            self.now = t
        if self.log_seams:
            self.ctx.log("ev", t, label)
        fn()

    def run_due(self):
        while self.heap and self.heap[0][0] <= self.now:
            self._run_next_event()

    def advance(self, d):
        target = self.now + d
        while self.heap and self.heap[0][0] <= target:
            self._run_next_event()
        self.now = target

    def monotonic(self):
        self.seam("clock")
        return self.now / NS

    def time(self):
        self.seam("clock")
        return 1_700_000_000 + self.now / NS

    def perf_counter_ns(self):
        self.seam("clock")
        return self.now

    on_sleep = None

    def sleep(self, secs):
        if self.on_sleep is not None:
            self.on_sleep(secs)
        self.seam("sleep")
        d = int(round(secs * NS))
        if d < 0:
            raise ValueError("sleep length must be non-negative")
        target = self.now + d
        self.block_until(lambda: self.now >= target, target, "sleep")
        self.seam_after("sleep")

    # ------------------------------------------------------------------ seams / faults

    def seam(self, kind, info=None):
        """Called before the effect of a seam call."""
        # events that are due (e.g. the reply of a terminal that answers instantly) have
        # happened by the time of the next system call, even if virtual time stood still
        if self.heap and self.heap[0][0] <= self.now:
            self.run_due()
        k = self.counts[kind] = self.counts.get(kind, 0) + 1
        if self.seq_log is not None and kind != "clock":
            self.seq_log.append((kind, k))
        if self.log_seams and kind != "clock":
            self.ctx.log("seam", kind, k, info)
        c = self.cost_ns.get(kind)
        if c:
            self.advance(c)
        self.yield_point(kind)
        f = self.fault
        if f is not None and not self.fault_done and f["kind"] == kind and f["k"] == k \
                and f.get("when", "before") == "before":
            return self._fire(f)
        return None

    def seam_after(self, kind):
        f = self.fault
        if f is not None and not self.fault_done and f["kind"] == kind \
                and f["k"] == self.counts.get(kind) and f.get("when") == "after":
            return self._fire(f)
        return None

    on_fire = None
    seq_log = None

    def _fire(self, f):
        self.fault_done = True
        if self.on_fire is not None:
            self.on_fire(f)
        self.ctx.fired("%s:%s:%s" % (f["kind"], f.get("when", "before"), f.get("exc", f.get("action"))))
        self.ctx.log("fault-fired", f["kind"], f["k"], f.get("when"), f.get("exc"))
        if f.get("action") == "partial":
            return f  # the seam implements partial delivery itself, then raises
        if f.get("action") == "clockjump":
            self.advance(int(f.get("ns", NS)))
            return None
        raise build_exc(f["exc"])

    # ------------------------------------------------------------------ blocking

    def block_until(self, pred, deadline, what):
        """Wait (in virtual time) until pred() or the deadline.  Returns pred()."""
        if not self.multitask or self.current is None:
            while True:
                if pred():
                    return True
                nxt = self.heap[0][0] if self.heap else None
                if deadline is not None and (nxt is None or nxt > deadline):
                    if deadline > self.now:
                        self.now = deadline
                    return pred()
                if nxt is None:
                    raise Violation("blocked_forever", {"what": what, "now": self.now}, what)
                self._run_next_event()
        t = self.current
        t.state = "blocked"
        t.pred = pred
        t.deadline = deadline
        t.what = what
        self._handover(t)
        return pred()

    # ------------------------------------------------------------------ tasks

    def spawn(self, fn, name, proc=0):
        t = Task(self, len(self.tasks), name, fn, proc)
        self.tasks.append(t)
        self.multitask = True

        def body():
            t.sem.acquire()
            try:
                if self.aborting:
                    return
                tf = self.tracefunc
                if tf is not None:
                    sys.settrace(tf)
                t.result = fn()
            except SimTimeoutAbort:
                pass
            except BaseException as e:  # noqa: B902 - recorded, judged by the oracle
                t.exc = e
            finally:
                sys.settrace(None)
                t.state = "done"
                self.current = None
                self.main_sem.release()

        t.thread = threading.Thread(target=body, name="sim-%s" % name, daemon=True)
        t.thread.start()
        return t

    tracefunc = None
    custom_pick = None     # policy "custom": fn(candidates, last) -> task (decides via Choices)

    def _handover(self, t):
        """Called in task thread t: give the baton to the scheduler and wait for it."""
        if self.aborting:
            raise SimTimeoutAbort()
        self.current = None
        self.main_sem.release()
        t.sem.acquire()
        if self.aborting:
            raise SimTimeoutAbort()
        self.current = t

    def yield_point(self, label=""):
        t = self.current
        if t is None or not self.multitask:
            return
        t.steps += 1
        t.state = "ready"
        self._handover(t)

    def _runnable(self):
        out = []
        for t in self.tasks:
            if t.state == "ready":
                out.append(t)
            elif t.state == "blocked":
                if t.pred() or (t.deadline is not None and self.now >= t.deadline):
                    out.append(t)
        return out

    def _pick(self, cands, last):
        ch = self.ch
        if len(cands) == 1:
            return cands[0]
        pol = self.policy
        if pol == "custom":
            return self.custom_pick(cands, last)
        if pol == "sticky":
            if last in cands and not ch.bool("sw", 0.15):
                return last
            return ch.pick("t", cands)
        if pol == "pct":
            if self.steps in self.pct_points and last is not None:
                last.priority = -self.steps
            best = max(cands, key=lambda t: (t.priority, -t.tid))
            return best
        return ch.pick("t", cands)

    def run_tasks(self):
        """Scheduler loop (runs on the calling thread) until all tasks are done."""
        last = None
        try:
            while True:
                live = [t for t in self.tasks if t.state != "done"]
                if not live:
                    return
                self.steps += 1
                if self.steps > self.step_cap:
                    raise Violation("step_cap_exceeded",
                                    {"tasks": [(t.name, t.state, t.what) for t in live]},
                                    "scheduler")
                cands = self._runnable()
                if not cands:
                    times = [t.deadline for t in live if t.state == "blocked" and t.deadline is not None]
                    nxt = self.heap[0][0] if self.heap else None
                    if nxt is not None and (not times or nxt <= min(times)):
                        self._run_next_event()
                        continue
                    if times:
                        self.now = max(self.now, min(times))
                        continue
                    raise Violation("deadlock",
                                    {"tasks": [(t.name, t.state, t.what) for t in live],
                                     "now": self.now}, "scheduler")
                t = self._pick(cands, last)
                if last is not None and t is not last:
                    self.switches += 1
                self.sched_trace.append(t.tid)
                if self.log_seams:
                    self.ctx.log("run", t.tid)
                last = t
                t.state = "running"
                t.pred = None
                self.current = t
                t.sem.release()
                self.main_sem.acquire()
        finally:
            self.abort_tasks()

    def abort_tasks(self):
        self.aborting = True
        for t in self.tasks:
            if t.state != "done":
                t.sem.release()
        for t in self.tasks:
            if t.thread is not None:
                t.thread.join(timeout=5)
        self.current = None


# ----------------------------------------------------------------------- simulated locks


class SimRLock:
    """threading.RLock replacement: owner = current task (or 'inline')."""

    kind = "thread"

    def __init__(self, kernel_ref, name="rlock"):
        self._kref = kernel_ref
        self.owner = None
        self.count = 0
        self.name = name
        self.waiters = 0

    def _me(self):
        k = self._kref()
        if k is None or k.current is None:
            return "inline"
        return k.current.tid

    def acquire(self, blocking=True, timeout=-1):
        k = self._kref()
        me = self._me()
        if k is not None:
            k.seam("lock.acquire", self.name)
            me = self._me()
        if self.owner == me:
            self.count += 1
            return True
        if self.owner is not None:
            if not blocking:
                return False
            if k is None or not k.multitask:
                raise Violation("self_deadlock", {"lock": self.name}, self.name)
            k.contended += 1
            self.waiters += 1
            deadline = None if timeout is None or timeout < 0 else k.now + int(timeout * NS)
            ok = k.block_until(lambda: self.owner is None, deadline, "lock:" + self.name)
            self.waiters -= 1
            if not ok or self.owner is not None:
                if self.owner is not None and deadline is None:
                    raise HarnessError("woken while lock still held")
                return False
        self.owner = me
        self.count = 1
        if k is not None and k.log_seams:
            k.ctx.log("locked", self.name, me)
        return True

    def release(self):
        me = self._me()
        if self.owner != me:
            raise RuntimeError("cannot release un-acquired lock")
        self.count -= 1
        if self.count == 0:
            self.owner = None
            k = self._kref()
            if k is not None:
                if k.log_seams:
                    k.ctx.log("unlocked", self.name, me)
                k.seam("lock.release", self.name)

    __enter__ = acquire

    def __exit__(self, *a):
        self.release()

    def _is_owned(self):
        return self.owner == self._me()

    def locked(self):
        return self.owner is not None
