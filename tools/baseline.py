#!/venv/bin/python
"""Runs the repository's pinned test command and compares with BASELINE.json stable_pass."""
import json, subprocess, sys, tempfile, os, xml.etree.ElementTree as ET
base = json.load(open("/root/.vp/BASELINE.json"))
out = tempfile.mktemp(suffix=".xml")
cmd = base["cmd"].replace("<file>", out)
subprocess.run(cmd, shell=True, stdout=subprocess.DEVNULL, stderr=subprocess.DEVNULL)
passed = set()
for tc in ET.parse(out).getroot().iter("testcase"):
    if not any(ch.tag in ("failure", "error", "skipped") for ch in tc):
        passed.add("%s::%s" % (tc.get("classname"), tc.get("name")))
os.remove(out)
want = set(base["stable_pass"])
missing = sorted(want - passed)
print("stable_pass: %d, passed now: %d, missing: %d" % (len(want), len(passed), len(missing)))
for m in missing[:20]:
    print("  MISSING", m)
sys.exit(1 if missing else 0)
