#!/venv/bin/python
"""verify_seeded.py <worktree> <mutant-dir> <PROPERTY-ID> <name>
Confirms an independently written mutant (patch.diff + demo.py): the pinned test suite
still passes with it, the demo fails with it and passes without, then runs the property's
quick check against it and stores everything under /verif/seeded/<name>/."""
import json, os, shutil, subprocess, sys, tempfile, xml.etree.ElementTree as ET

wt, mdir, pid, name = sys.argv[1:5]
others = sys.argv[5:]
env = dict(os.environ, PYTHONPATH=os.path.join(wt, "src"))
PY = "/venv/bin/python"


def sh(cmd, **kw):
    return subprocess.run(cmd, shell=True, cwd=wt, env=env, capture_output=True, text=True, **kw)


def suite():
    base = json.load(open("/root/.vp/BASELINE.json"))
    out = tempfile.mktemp(suffix=".xml")
    cmd = base["cmd"].replace("cd /repo && ", "").replace("<file>", out)
    sh(cmd)
    passed = set()
    for tc in ET.parse(out).getroot().iter("testcase"):
        if not any(c.tag in ("failure", "error", "skipped") for c in tc):
            passed.add("%s::%s" % (tc.get("classname"), tc.get("name")))
    os.remove(out)
    return sorted(set(base["stable_pass"]) - passed)


def demo():
    r = sh("%s %s" % (PY, os.path.join(mdir, "demo.py")), timeout=600)
    return r.returncode, (r.stdout + r.stderr)[-400:]


sh("git checkout -- .")
clean_demo = demo()
ap = sh("git apply %s" % os.path.join(mdir, "patch.diff"))
if ap.returncode:
    print("patch does not apply:", ap.stderr)
    sys.exit(2)
missing = suite()
mut_demo = demo()
results = {}
for p in [pid] + others:
    r = subprocess.run(["/bin/sh", "/verif/check", p, "--tier", "quick", "--no-evidence"],
                       env=dict(os.environ, VERIF_SRC=os.path.join(wt, "src")),
                       capture_output=True, text=True, cwd="/verif")
    viol = [l for l in r.stdout.splitlines() if l.startswith("  invariant=")]
    results[p] = {"exit": r.returncode, "violations": [v[:300] for v in viol[:4]],
                  "summary": r.stdout.strip().splitlines()[-1][:300] if r.stdout.strip() else ""}
sh("git checkout -- .")
ok = not missing and clean_demo[0] == 0 and mut_demo[0] != 0
dest = os.path.join("/verif/seeded", name)
if ok:
    os.makedirs(dest, exist_ok=True)
    for f in ("patch.diff", "demo.py", "notes.md"):
        if os.path.exists(os.path.join(mdir, f)):
            shutil.copy(os.path.join(mdir, f), os.path.join(dest, f))
    meta = {
        "property": pid, "properties": [pid] + others, "name": name,
        "written_by": "independent sub-agent given only the property text and a scratch worktree",
        "needs_to_manifest": open(os.path.join(mdir, "notes.md")).read()[:1500]
        if os.path.exists(os.path.join(mdir, "notes.md")) else "",
        "confirmed": {"pinned_suite_stable_pass_missing_with_patch": missing,
                      "demo_without_patch_exit": clean_demo[0],
                      "demo_with_patch_exit": mut_demo[0],
                      "demo_with_patch_output": mut_demo[1]},
        "ran": {p: "VERIF_SRC=<scratch>/src ./check %s --tier quick" % p for p in results},
        "check_results": results,
        "caught": any(v["exit"] == 1 for v in results.values()),
    }
    json.dump(meta, open(os.path.join(dest, "meta.json"), "w"), indent=1)
print(json.dumps({"name": name, "valid_mutant": ok, "suite_missing": missing[:3],
                  "demo_clean": clean_demo[0], "demo_mutant": mut_demo[0],
                  "checks": {p: (v["exit"], v["violations"][:1]) for p, v in results.items()}},
                 indent=1))
