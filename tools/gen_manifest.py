#!/venv/bin/python
"""Regenerates MANIFEST.json from the property modules (single source of truth)."""
import importlib
import json
import os
import sys

VERIF = os.path.dirname(os.path.dirname(os.path.abspath(__file__)))
sys.path.insert(0, VERIF)
from simkit.runner import PROPS  # noqa: E402

NOT_APPLICABLE = [
    ("C01", "Pure function of (image, style, method, alpha, size, terminal configuration): the quantifier is inputs x configurations only - no schedule, clock, fault or history for a simulator to control. Its geometric clauses are consumed as oracles inside the C06/C07/C18 worlds."),
    ("C02", "Pure function from pixels and settings to a string; no nondeterminism or fault surface."),
    ("C03", "Pure function (payload framing and content); VTerm rejects malformed payloads inside C06/C07 runs but that is not a claim over the input space."),
    ("C05", "Padding.pad/get_padded_size/to_exact/resolve and _format_render are pure; the terminal size is an explicit argument."),
    ("C17", "Canvas content is a pure function of (image, widget size, alignment, trim rectangle)."),
    ("C19", "A predicate on strings; the stated quantifier is bounded-exhaustive enumeration, which is a different technique."),
]


def main():
    checks = []
    engines = {}
    for pid in PROPS:
        try:
            m = importlib.import_module("props." + pid.lower())
        except ImportError:
            continue
        checks.append({
            "property_id": pid,
            "quick_cmd": "./check %s --tier quick" % pid,
            "thorough_cmd": "./check %s --tier thorough" % pid,
            "evidence_file": "evidence/%s.json" % pid,
            "replay_cmd_template": "./check %s --replay {path}" % pid,
            "engine": "simkit",
            "level_claimed": {"category": m.LEVEL, "text": m.LEVEL_TEXT,
                              "design_ref": "DESIGN.md section 4." + pid},
            "level_note": m.LEVEL_NOTE,
            "technique": m.TECHNIQUE,
        })
    claimed = {c["property_id"] for c in checks}
    na = [{"property_id": p, "reason": r} for p, r in NOT_APPLICABLE]
    for pid in PROPS:
        if pid not in claimed:
            na.append({"property_id": pid, "reason": "check not built yet (planned, see DESIGN.md section 4)"})
    hooks_commits = []
    hp = os.path.join(VERIF, "hooks_commits.txt")
    if os.path.exists(hp):
        hooks_commits = [l.strip() for l in open(hp) if l.strip()]
    manifest = {
        "version": 1,
        "setup_cmd": "./setup.sh",
        "hooks": {
            "guard": "TERM_IMAGE_VERIF",
            "enable": "none needed: every seam is a module-level name of term_image that the simulator replaces after a fresh import (DESIGN.md 2.7); the guard name is reserved and unused",
            "baseline_off_cmd": "cd /repo && /venv/bin/python -m pytest -ra -q -p no:cacheprovider --timeout=900 --continue-on-collection-errors",
            "source_commits": hooks_commits,
            "add_only": True,
        },
        "engines": [{
            "name": "simkit", "path": "simkit/",
            "serves_properties": sorted(claimed),
            "kind_free_text": "deterministic simulation with fault injection: seeded Choices stream, virtual clock + event heap, simulated tty/termios/select/stdout, terminal emulator model with query responder, baton-passed threads and simulated processes, fault plans, choice-list shrinking, replay files",
        }],
        "checks": checks,
        "not_applicable": na,
        "notes": "All checks: ./check <ID> --tier quick|thorough [--seed N]; VERIF_SEED / VERIF_TIER honoured; exit 0 held, 1 VIOLATION, 2 harness error. term_image is imported from VERIF_SRC (default /repo/src, the working tree).",
    }
    with open(os.path.join(VERIF, "MANIFEST.json"), "w") as fp:
        json.dump(manifest, fp, indent=1)
    print("MANIFEST.json: %d checks, %d not applicable" % (len(checks), len(na)))


main()
