#!/venv/bin/python
"""mutant_matrix.py [seed ...]  -  sensitivity across seeds.

Applies every patch under selftest/mutants/ and seeded/*/patch.diff to a scratch copy of the
source tree (VERIF_SRC or /repo/src), runs the quick check of the property (or properties) it
is recorded for with each given seed and prints, per patch, how many seeds caught it.
Writes selftest/matrix.json.  Scratch copies live under the system temp dir and are removed."""
import glob, json, os, shutil, subprocess, sys, tempfile, time

VERIF = os.path.dirname(os.path.dirname(os.path.abspath(__file__)))
seeds = [int(x) for x in sys.argv[1:]] or [1, 2, 3]
base = os.environ.get("VERIF_SRC") or "/repo/src"
patches = sorted(glob.glob(os.path.join(VERIF, "selftest", "mutants", "*.patch"))
                 + glob.glob(os.path.join(VERIF, "seeded", "*", "patch.diff")))
only = os.environ.get("MATRIX_ONLY")
if only:
    patches = [p for p in patches if only in p]
out = {}
for patch in patches:
    mp = os.path.join(os.path.dirname(patch), "meta.json")
    if os.path.basename(patch) == "patch.diff" and os.path.exists(mp):
        meta = json.load(open(mp))
        pids = meta.get("properties") or [meta.get("property")]
        name = meta.get("name") or os.path.basename(os.path.dirname(patch))
    else:
        pids = [os.path.basename(patch).split("-")[0].upper()]
        name = os.path.basename(patch)[:-6]
    scratch = tempfile.mkdtemp(prefix="verif-mx-")
    try:
        shutil.copytree(base, os.path.join(scratch, "src"))
        pr = subprocess.run(["patch", "-p1", "-s", "-d", scratch, "-i", patch],
                            capture_output=True, text=True)
        if pr.returncode != 0:
            out[name] = {"error": "patch failed"}
            print(name, "PATCH FAILED", flush=True)
            continue
        res = {}
        for pid in pids:
            res[pid] = []
            for seed in seeds:
                env = dict(os.environ, VERIF_SRC=os.path.join(scratch, "src"))
                r = subprocess.run(["/bin/sh", os.path.join(VERIF, "check"), pid, "--tier", "quick",
                                    "--no-evidence", "--seed", str(seed), "--shrink-budget", "0"],
                                   env=env, capture_output=True, text=True, cwd=VERIF)
                res[pid].append(r.returncode)
        out[name] = res
        best = max(sum(1 for e in v if e == 1) for v in res.values())
        print(name, {k: v for k, v in res.items()}, "caught %d/%d" % (best, len(seeds)),
              flush=True)
    finally:
        shutil.rmtree(scratch, ignore_errors=True)
json.dump({"seeds": seeds, "results": out}, open(os.path.join(VERIF, "selftest", "matrix.json"), "w"),
          indent=1)
weak = [n for n, r in out.items() if "error" not in r
        and max(sum(1 for e in v if e == 1) for v in r.values()) < len(seeds)]
print("patches: %d, caught at every seed (by some recorded property): %d, weak or missed: %s"
      % (len(out), len(out) - len(weak), weak))
