#!/venv/bin/python
"""new_round.py <round> <offset> [PID ...]  -  prepare a round of independent mutation seeding.

For every claimed property (or the given ones) this makes /tmp/r<round>/<pid>/ with a detached
scratch worktree of /repo's HEAD (wt/), an empty out/ and a TASK.md for a sub-agent that is
given nothing but the property text and the one-line titles of the ideas already used
(seeded/*/notes.md, selftest/mutants/*).  It also writes /tmp/r<round>/verify.sh:
`verify.sh c15 1 [extra PIDs]` confirms out/m1 with tools/verify_seeded.py and stores it as
seeded/c15-agent-<offset+1>.  Nothing under /verif is shown to the sub-agents; the worktrees are
removed with `new_round.py <round> --clean`."""
import glob, json, os, re, subprocess, sys

rnd = sys.argv[1]
root = "/tmp/r%s" % rnd
claimed = "C04 C06 C07 C08 C09 C10 C11 C12 C13 C14 C15 C16 C18 C20".split()
if sys.argv[2] == "--clean":
    for wt in glob.glob(root + "/*/wt"):
        subprocess.run(["git", "-C", "/repo", "worktree", "remove", "--force", wt])
    subprocess.run(["git", "-C", "/repo", "worktree", "prune"])
    subprocess.run(["rm", "-rf", root])
    sys.exit(0)
offset = int(sys.argv[2])
if sys.argv[3:]:
    claimed = sys.argv[3:]
props = {json.loads(l)["id"]: json.loads(l) for l in open("/verif/properties.jsonl")}
used = {}
for d in sorted(glob.glob("/verif/seeded/*")):
    pid = os.path.basename(d)[:3].upper()
    first = [l for l in open(d + "/notes.md") if l.strip()][0].strip("# \n")
    used.setdefault(pid, []).append(re.sub(r"^(C\d+ )?[Mm]utant \d+ [-–—] ", "", first))
for f in sorted(os.listdir("/verif/selftest/mutants")):
    pid = f[:3].upper()
    used.setdefault(pid, []).append(f[4:-6].replace("-", " "))
os.makedirs(root, exist_ok=True)
open(root + "/verify.sh", "w").write("""#!/bin/sh
# usage: verify.sh c15 1 [extra props]
p=$1; i=$2; shift 2
P=$(echo $p | tr a-z A-Z); n=$((i+%d))
git -C %s/$p/wt checkout -q -- .
/venv/bin/python /verif/tools/verify_seeded.py %s/$p/wt %s/$p/out/m$i $P $p-agent-$n "$@" > %s/$p/verify_m$i.json 2>&1
/venv/bin/python - <<EOF
import json
try:
    d=json.load(open('%s/$p/verify_m$i.json'))
    print(d['name'], 'valid' if d['valid_mutant'] else 'INVALID', d['suite_missing'], d['demo_clean'], d['demo_mutant'], {k:v[0] for k,v in d['checks'].items()})
except Exception as e:
    print('$p m$i ERR', open('%s/$p/verify_m$i.json').read()[-500:])
EOF
""" % ((offset,) + (root,) * 6))
os.chmod(root + "/verify.sh", 0o755)
for pid in claimed:
    p = props[pid]
    base = "%s/%s" % (root, pid.lower())
    os.makedirs(base + "/out", exist_ok=True)
    wt = base + "/wt"
    if not os.path.exists(wt):
        subprocess.run(["git", "-C", "/repo", "worktree", "add", "--detach", wt, "HEAD"],
                       check=True, capture_output=True)
    anchors = p["anchors"]
    text = f"""# Task: write two realistic regressions of a library property (mutation seeding)

You are helping evaluate a verification effort. The library is AnonymouX47/term-image (pure Python;
renders PIL images in terminals). You have your own scratch git worktree of it at

    {wt}

Work ONLY inside {base}. Never read, list or modify /repo or /verif (your worktree is a
complete copy of the source; nothing outside {base} is relevant to you). Do not use `git stash`
(the stash is shared between worktrees); use `git diff > file`, `git apply`, `git apply -R` and
`git checkout -- .` instead.

## The property

**{pid} - {p['title']}**

Statement: {p['statement']}

Quantifier: {p['quantifier']['text']}

Why the existing tests cannot settle it: {p['why_tests_cant']}

Code anchors (files): {', '.join(anchors['files'])}
Mechanisms: {'; '.join(m['name'] + ' @ ' + m['where'] for m in anchors['mechanism'])}
Observed at: {'; '.join(anchors['observe_at'])}
(line numbers in the anchors are approximate)

## What to produce

TWO different changes ("mutants") to the library source under {wt}/src/term_image, each of which

1. BREAKS the property above (some clause of its statement becomes false for some input /
   schedule / fault / history inside its quantifier),
2. still imports fine and still passes the library's existing test suite, unedited:

       cd {wt} && PYTHONPATH={wt}/src /venv/bin/python -m pytest -q -p no:cacheprovider --timeout=900 --continue-on-collection-errors -q 2>&1 | tail -5

   (on the unmodified worktree this gives `4 failed, 1178 passed, 1 error` - the 4 failures need
   network and the error is a collection error in tests/test_padding.py; all five are there
   without any change too. "Passes" means: the same 1178 tests pass and nothing else fails -
   compare per-test outcomes with `-rA` if in doubt),
3. is REALISTIC: the kind of edit a maintainer could make by mistake in a refactoring,
   optimisation or "clean-up" and that would survive review - small, plausible, not sabotage,
4. needs SOMETHING SPECIFIC to manifest - a particular interleaving, a crash / interrupt / fault at
   a particular point, a multi-step sequence of operations, an unusual input or configuration, or
   two cooperating sites that each look fine alone. NOT something ordinary use exposes at once
   (if the very first plain call of the API misbehaves, it is too blunt),
5. the two mutants must use clearly different mechanisms / code sites from each other, and
   must differ from these ideas, which have ALL been used already for this property. The list is
   long: read it carefully, then deliberately look for parts of the statement and of its
   quantifier, code paths, argument kinds, configuration corners and fault / interleaving kinds
   that it has NOT touched yet (also helper functions the anchored code calls into):
{chr(10).join('   - ' + u for u in used.get(pid, []))}

NOT wanted (outside what the property quantifies over): changes that only show when two threads
operate on the same image / iterator / argument object concurrently (unless the property is about
threads), or that need an interrupt between two Python bytecodes rather than at a system call,
write, read, sleep or render boundary; changes that only show after `sys.stdout` is rebound or
after a real `os.fork()`.

For each mutant i in (1, 2) write into {base}/out/m<i>/ :

* `patch.diff` - output of `git diff` run at the worktree root (must apply with
  `git apply patch.diff` at the root of a clean checkout of the same commit); source changes
  only, do not touch tests,
* `demo.py` - a small self-contained program demonstrating the breakage: run as
  `PYTHONPATH=<worktree>/src /venv/bin/python demo.py` it must exit 0 on the UNMODIFIED source and exit
  non-zero (printing what went wrong) WITH the patch applied. It must be deterministic, finish
  in under a minute, need no network and no real terminal (the sandbox has no controlling tty;
  `os.openpty()` works; mock or fake whatever you need - `unittest.mock`, fake streams, fake
  `termios`, threads with explicit events to force an interleaving, injected exceptions, ...).
  It must not import anything from outside the standard library, the library itself, PIL, urwid and requests
  (all installed in /venv),
* `notes.md` - first line `# {pid} mutant <i> - <one-line title>`; then: the change, which clause of
  the statement it breaks, and exactly what is needed for it to manifest (and why ordinary use
  and the test suite do not show it).

Verify all of it yourself before finishing: with the patch applied the test suite still passes
and demo.py fails; without it demo.py passes. Finish with the worktree clean
(`git -C {wt} checkout -- .` and no stray files in it). Do not commit anything.

Useful facts: /venv/bin/python is Python 3.12 with the library's dependencies; the library is
imported from whatever `PYTHONPATH` says first, so always set `PYTHONPATH={wt}/src`. When
imported without a tty the library prints a warning and disables terminal queries; a demo that
needs the query path can point `sys.__stdout__` at a pty slave before the first import, or patch
`term_image.utils` attributes (`_tty_fd`, `os`, `termios`, `select`, ...) afterwards.

Your final message: for each mutant one short paragraph (file/function changed, clause broken, what it
takes to manifest) and the commands you ran to verify, with their results. Keep it brief.
"""
    open(base + "/TASK.md", "w").write(text)
print("round %s ready under %s: %s" % (rnd, root, " ".join(claimed)))
